"""E-STORE: histories at the Store API for the back ends HTTP cannot reach
(VdirStore, in-memory bare git) and for disk bare/tree git without the web
layer.  Hosts the Store-API halves of C01, C02, C03 and C06, plus the
I/O-error configuration of C01 (DESIGN.md 2.3(4))."""

import errno
import gc
import hashlib
import os
import random

from .. import gen, icalparse
from ..rng import H
from ..simfs import FS
from ..world import Arena
from .crash import close_store, create_store, git_blob_id, open_store

BACKENDS = ["vdir", "memory", "bare", "tree"]


def make_config(prop, seed, tier):
    r = random.Random(H("storecfg", seed))
    return {
        "seed": seed,
        "backend": r.choice(BACKENDS),
        "steps": (r.randint(10, 30) if tier == "quick" else r.randint(15, 70)) + (10 if prop == "C06" else 0),
        "io_faults": prop == "C01" and r.random() < 0.35,
        # one read-side step (open / stat / listdir) of a write fails
        "read_faults": prop == "C06" and r.random() < 0.5,
        "listing": True,
        # several store objects on one directory = several server processes
        # taking turns (no overlap): their in-memory caches go stale
        "handles": r.choice([2, 2, 3]) if prop == "C06" else r.choice([1, 1, 2, 3]),
        "sim_mtime": r.random() < 0.5,
    }


def new_store(backend, path):
    if backend == "memory":
        from xandikos.icalendar import ICalendarFile
        from xandikos.store.git import BareGitStore
        from xandikos.vcard import VCardFile

        st = BareGitStore.create_memory()
        st.load_extra_file_handler(ICalendarFile)
        st.load_extra_file_handler(VCardFile)
        return st
    return create_store(backend, path)


class StoreRun:
    def __init__(self, prop, cfg, ops=None, tag="store"):
        self.prop = prop
        self.cfg = cfg
        self.replay_ops = ops
        self.ops = []
        self.tag = tag
        self.violations = []
        self.stats = {}
        self.rng = random.Random(H("storework", cfg["seed"]))
        self.model = {}  # name -> dict(bytes, etag, uid, upload)
        self.etag_hist = {}
        self.etag_bytes = {}
        self.bytes_etag = {}
        self.digest = hashlib.sha256()
        self.nontrivial = {}
        self.fresh = 0
        self.samples = []
        self.uid_pool = ["uid-1", "uid-2", "uid-3", "UID-1", "uid 2", "u,3;x", "uid-1 ", " uid-2"]
        self.bytes_hist = {}  # name -> served contents it has had

    def count(self, k, n=1):
        self.stats[k] = self.stats.get(k, 0) + n

    def v(self, prop, oracle, detail, **sig):
        if prop != self.prop:
            return
        s = {"oracle": oracle, "backend": self.cfg["backend"], "level": "store-api"}
        s.update(sig)
        self.violations.append({"prop": prop, "oracle": oracle, "sig": s, "step": len(self.ops) - 1, "detail": str(detail)[:600]})

    # ---------------------------------------------------------------- generation
    def exts(self):
        e = [".ics", ".ics", ".vcf"] if self.cfg["backend"] == "vdir" else [".ics", ".ics", ".vcf", ".txt"]
        if self.prop == "C06":
            # extensions are matched without regard to case (mimetypes does so)
            e = e + [".ICS", ".Ics"]
        return e

    def body(self, name, uid):
        r = self.rng
        if name.lower().endswith(".ics"):
            return gen.ics(r, uid), "text/calendar"
        if name.lower().endswith(".vcf"):
            return gen.vcf(r, uid=uid), "text/vcard"
        return gen.opaque(r), "application/octet-stream"

    def etag_ref(self, name):
        r = self.rng
        k = r.choice(["cur", "cur", "stale", "other", "garbage", "none"])
        return {"k": k, "name": name}

    def resolve_etag(self, ref):
        if ref is None:
            return None
        k, name = ref["k"], ref["name"]
        cur = self.model.get(name, {}).get("etag")
        if k == "cur":
            return cur if cur is not None else "0" * 40
        if k == "stale":
            olds = [e for e in self.etag_hist.get(name, []) if e != cur]
            return olds[-1] if olds else "1" * 40
        if k == "other":
            for n, m in sorted(self.model.items()):
                if n != name and m["etag"] != cur:
                    return m["etag"]
            return "2" * 40
        if k == "garbage":
            return "zzz"
        return None

    def gen_op(self):
        r = self.rng
        names = sorted(self.model)
        q = getattr(self, "queue", None)
        if q:
            return q.pop(0)
        nh = len(getattr(self, "handles", [1]))
        holders = [(n, m["uid"]) for n, m in sorted(self.model.items()) if m.get("uid")]
        if self.prop == "C06" and nh > 1 and holders and r.random() < 0.15:
            # UID hand-over seen by another handle: handle A has scanned; handle B frees the
            # UID (delete, or overwrite with another UID) and gives it to a new name; handle A
            # then tries to use the same UID for a third name (must be refused)
            n, u = r.choice(holders)
            ha = r.randrange(nh)
            hb = (ha + 1 + r.randrange(nh - 1)) % nh
            self.fresh += 3
            def imp(name, uid, h):
                b, ct = self.body(name, uid)
                return {"op": "import", "name": name, "body": b.decode("latin-1"), "ctype": ct, "handle": h}
            free = {"op": "delete", "name": n, "handle": hb} if r.random() < 0.5 else imp(n, "u-freed-%d" % self.fresh, hb)
            self.queue = [free, imp("h%d.ics" % self.fresh, u, hb), imp("h%d.ics" % (self.fresh + 1), u, ha)]
            return imp("scan%d.ics" % self.fresh, "u-scan-%d" % self.fresh, ha)
        if self.prop == "C06" and self.cfg.get("read_faults") and r.random() < 0.2 and self.stats.get("fault.read_error_armed", 0) < 4:
            # a fresh member, then an unrelated write whose read side fails once somewhere (the
            # UID scan reads the fresh member there), then a write that wants the fresh member's UID
            h = r.randrange(nh)
            self.fresh += 3
            f = self.fresh

            def imp2(name, uid):
                b, ct = self.body(name, uid)
                return {"op": "import", "name": name, "body": b.decode("latin-1"), "ctype": ct, "handle": h}

            c = imp2("rfc%d.ics" % f, "u-rfc-%d" % f)
            c["rfault"] = {"after": r.randint(1, max(8, getattr(self, "last_import_events", 30))), "errno": "EIO"}
            self.queue = [c, imp2("rfp%d.ics" % f, "u-rfa-%d" % f)]
            return imp2("rfa%d.ics" % f, "u-rfa-%d" % f)
        if self.prop == "C06" and holders and r.random() < 0.1:
            # a member is deleted and comes back byte-identical; its UID must be taken again
            n, u = r.choice(holders)
            h = r.randrange(nh)
            self.fresh += 2
            ct = "text/calendar" if n.lower().endswith(".ics") else "text/vcard"
            b2, ct2 = self.body("back%d.ics" % self.fresh, u)
            self.queue = [{"op": "delete", "name": n, "handle": h},
                          {"op": "import", "name": n, "body": self.model[n]["bytes"].decode("latin-1"), "ctype": ct, "handle": h},
                          {"op": "import", "name": "back%d.ics" % self.fresh, "body": b2.decode("latin-1"), "ctype": ct2, "handle": h}]
            b1, ct1 = self.body("scan%d.ics" % self.fresh, "u-scan-%d" % self.fresh)
            return {"op": "import", "name": "scan%d.ics" % self.fresh, "body": b1.decode("latin-1"), "ctype": ct1, "handle": h}
        k = r.random()
        p = self.prop
        if k < 0.3 or not names:
            self.fresh += 1
            nm = "%s%d%s" % (r.choice(["a", "b", "item"]), self.fresh, r.choice(self.exts()))
            uid = r.choice(self.uid_pool) if (p == "C06" and r.random() < 0.7) else "u-%d" % self.fresh
            if nm.lower().endswith(".ics") and r.random() < 0.06:
                uid = None
            b, ct = self.body(nm, uid)
            op = {"op": "import", "name": nm, "body": b.decode("latin-1"), "ctype": ct}
            if r.random() < (0.4 if p == "C03" else 0.1):
                op["replace_etag"] = self.etag_ref(nm)
            if r.random() < 0.08:
                op["name"] = None
            return op
        if k < 0.6:
            nm = r.choice(names)
            m = self.model[nm]
            if p == "C06" and r.random() < 0.5:
                uid = r.choice(self.uid_pool)
            else:
                uid = m.get("uid") if r.random() < 0.8 else "u-moved-%d" % r.randint(0, 99)
            prev = [b for b in self.bytes_hist.get(nm, []) if b != m["bytes"]]
            if prev and r.random() < 0.2:
                # back to an earlier content of this member (the collection returns to a state it had before)
                b = r.choice(prev[-3:])
                ct = "text/calendar" if nm.lower().endswith(".ics") else "text/vcard" if nm.lower().endswith(".vcf") else "application/octet-stream"
                return {"op": "import", "name": nm, "body": b.decode("latin-1"), "ctype": ct, "revert": True}
            swap = None
            if p == "C06" and m.get("uid") and nm.lower().endswith(".ics") and r.random() < 0.3:
                # the UID changes to one of the same length and nothing else does: same size, and with
                # simulated time stamps the same mtime (defeats change detection by stat)
                cands = [u for u in self.uid_pool if len(u) == len(m["uid"]) and u != m["uid"]]
                cands += [m["uid"][:-1] + ("7" if m["uid"][-1] != "7" else "3")]
                new_uid = r.choice(cands)
                old_line = b"UID:" + m["uid"].encode("utf-8")
                if m["bytes"].count(old_line) == 1:
                    swap = m["bytes"].replace(old_line, b"UID:" + new_uid.encode("utf-8"))
            if swap is not None:
                b, ct = swap, "text/calendar"
            elif r.random() < 0.2 and m["bytes"] and nm.lower().endswith((".ics", ".vcf")):
                # same length, different content (defeats caches keyed on size and timestamps)
                old = m["bytes"]
                i = old.find(b"uid-") if b"uid-" in old else old.find(b"FN:")
                b = old
                for j in range(len(old) - 1, 0, -1):
                    if old[j:j + 1].isdigit():
                        b = old[:j] + (b"7" if old[j:j + 1] != b"7" else b"3") + old[j + 1:]
                        break
                ct = "text/calendar" if nm.lower().endswith(".ics") else "text/vcard"
            elif r.random() < 0.15:
                b, ct = m["bytes"], ("text/calendar" if nm.lower().endswith(".ics") else "text/vcard" if nm.lower().endswith(".vcf") else "application/octet-stream")
            else:
                b, ct = self.body(nm, uid)
            op = {"op": "import", "name": nm, "body": b.decode("latin-1"), "ctype": ct}
            if r.random() < (0.6 if p == "C03" else 0.25):
                op["replace_etag"] = self.etag_ref(nm)
            return op
        if k < 0.8:
            if r.random() < 0.2:
                nm = "missing%d%s" % (r.randint(0, 9), r.choice(self.exts()))
            else:
                nm = r.choice(names)
            op = {"op": "delete", "name": nm}
            if r.random() < (0.6 if p == "C03" else 0.3):
                op["etag"] = self.etag_ref(nm)
            return op
        if k < 0.86 and self.cfg["backend"] != "memory":
            return {"op": "reopen"}
        if k < 0.93:
            inv = r.choice(["text", "empty", "truncated"])
            ext = r.choice([".ics", ".vcf"])
            src = gen.INVALID_ICS if ext == ".ics" else gen.INVALID_VCF
            b = src[inv](r)
            nm = r.choice([n for n in names if n.lower().endswith(ext)] or ["inv%d%s" % (self.fresh, ext)])
            return {"op": "import", "name": nm, "body": b.decode("latin-1"), "ctype": "text/calendar" if ext == ".ics" else "text/vcard", "invalid": inv}
        return {"op": "read"}

    # ----------------------------------------------------------------- execution
    def run(self):
        self.arena = Arena(self.tag)
        FS.reset()
        import random as _r

        FS.listing_rng = _r.Random(H("listing", self.cfg["seed"]))
        self.path = os.path.join(self.arena.path, "st")
        try:
            if self.cfg.get("sim_mtime"):
                from ..simclock import CLOCK

                CLOCK.reset()
                FS.mtime_source = CLOCK.time_ns
            self.st = new_store(self.cfg["backend"], self.path)
            self.handles = [self.st]
            if self.cfg["backend"] != "memory":
                for _ in range(self.cfg.get("handles", 1) - 1):
                    self.handles.append(open_store(self.cfg["backend"], self.path))
            FS.active = True
            if self.replay_ops is not None:
                for op in self.replay_ops:
                    self.step(dict(op))
                    if self.violations:
                        break
            else:
                for i in range(self.cfg["steps"]):
                    op = self.gen_op()
                    if len(self.handles) > 1 and "handle" not in op:
                        op["handle"] = self.rng.randrange(len(self.handles))
                    if self.cfg.get("io_faults") and op["op"] in ("import", "delete") and self.rng.random() < 0.2 and self.stats.get("fault.io_error_armed", 0) < 2:
                        op["fault"] = {"after": self.rng.randint(1, 3 if self.cfg["backend"] == "vdir" else 25), "errno": self.rng.choice(["ENOSPC", "EIO"])}
                    if self.cfg.get("read_faults") and op["op"] == "import" and "fault" not in op and "rfault" not in op and self.rng.random() < 0.25 and self.stats.get("fault.read_error_armed", 0) < 3:
                        op["rfault"] = {"after": self.rng.randint(1, 40), "errno": self.rng.choice(["EIO", "EIO", "EMFILE"])}
                    self.step(op)
                    if self.violations:
                        break
        finally:
            FS.active = False
            for h in getattr(self, "handles", []):
                try:
                    close_store(h)
                except Exception:
                    pass
            self.arena.destroy()
        nt = self.nontrivial
        return {"violations": self.violations[:4], "cfg": self.cfg, "ops": self.ops, "stats": self.stats, "digest": self.digest.hexdigest(), "engine": "store",
                "nontrivial": nt,
                "world": {"virtual_s": 0.0, "nreq": 0}, "fs": {"bypass": len(FS.bypass), "bypass_sample": FS.bypass[:3]}, "samples": self.samples,
                "states": 0, "transitions": 0}

    def observe(self):
        st = self.st
        out = {}
        for name, ctype, etag in st.iter_with_etag():
            if name in out:
                self.v("C01", "C01.listing-duplicate", "iter_with_etag yields %s twice" % name)
            data = b"".join(st.get_file(name, ctype, etag).content)
            out[name] = (etag, data)
        return out

    def step(self, op):
        self.ops.append(op)
        k = op["op"]
        self.count("op." + k)
        hi = op.get("handle", 0) % len(self.handles)
        st = self.st = self.handles[hi]
        if hi:
            self.count("op_on_second_handle")
        before = dict(self.model)
        if k == "reopen":
            FS.active = False
            close_store(st)
            self.st = None
            gc.collect()
            self.st = self.handles[hi] = open_store(self.cfg["backend"], self.path)
            FS.active = True
            self.count("fault.reopen")
            self.audit(op, None, None, "reopen")
            return
        if k == "read":
            self.audit(op, None, None, "read")
            return
        fault = op.get("fault")
        if fault:
            FS.err_at = {FS.mut_seq + fault["after"]: getattr(errno, fault["errno"])}
            self.count("fault.io_error_armed")
        rfault = op.get("rfault")
        if rfault:
            FS.read_err_at = {FS.ev_seq + rfault["after"]: getattr(errno, rfault["errno"])}
            self.count("fault.read_error_armed")
        exc = None
        res = None
        ev0 = FS.ev_seq
        try:
            if k == "import":
                re_ = self.resolve_etag(op.get("replace_etag"))
                res = st.import_one(op["name"], op["ctype"], [op["body"].encode("latin-1")], replace_etag=re_)
            else:
                et = self.resolve_etag(op.get("etag"))
                res = st.delete_one(op["name"], etag=et)
        except Exception as e:  # noqa: BLE001 - outcome of the operation
            exc = e
        if k == "import":
            self.last_import_events = FS.ev_seq - ev0
        fired = bool(FS.err_fired)
        FS.err_at = {}
        FS.read_err_at = {}
        if fired:
            self.count("fault.read_error_fired" if rfault else "fault.io_error_fired")
            FS.err_fired = []
        self.digest.update(("%s %s %s\n" % (k, op.get("name"), type(exc).__name__ if exc else "ok")).encode())
        self.audit(op, res, exc, "fault" if fired else "op")

    def audit(self, op, res, exc, mode):
        from xandikos.store import DuplicateUidError, InvalidETag, InvalidFileContents, NoSuchItem

        k = op["op"]
        model = self.model
        backend = self.cfg["backend"]
        try:
            obs = self.observe()
        except Exception as e:  # noqa: BLE001
            self.v("C01", "C01.store-unreadable", "listing/reading failed after %s: %r" % (k, e), after=mode)
            return
        name = op.get("name")
        target = name
        if k == "import" and exc is None and res is not None:
            target = res[0]
        if mode in ("reopen", "read"):
            self.compare(obs, dict((n, m) for n, m in model.items()), "C01.state-changed-by-" + mode, k)
            return
        # ---- preconditions (C03) and uid rules (C06), judged on the pre-state
        cur = model.get(name) if name else None
        if k == "import":
            re_ = self.resolve_etag(op.get("replace_etag"))
            if re_ is not None and not op.get("invalid") and mode == "op":
                must_fail = cur is None or cur["etag"] != re_
                if must_fail:
                    self.nontrivial.setdefault("refused", set()).add(name)
                    if exc is None:
                        self.v("C03", "C03.false-precondition-executed", "import_one(%s, replace_etag=%s) succeeded; current etag %s" % (name, re_, cur["etag"] if cur else None), api="import_one")
                else:
                    self.nontrivial.setdefault("executed", set()).add(name)
                    if isinstance(exc, InvalidETag):
                        self.v("C03", "C03.true-precondition-refused", "import_one(%s, replace_etag=current) raised InvalidETag" % name, api="import_one")
            body = op["body"].encode("latin-1")
            uid = icalparse.first_uid(body) if (name or "x.ics").lower().endswith(".ics") and op["ctype"] == "text/calendar" else None
            if uid is not None and mode == "op" and not op.get("invalid"):
                holders = [n for n, m in model.items() if n != name and m.get("uid") == uid]
                if holders:
                    self.nontrivial["conflicts"] = self.nontrivial.get("conflicts", 0) + 1
                    if exc is None:
                        self.v("C06", "C06.conflicting-write-accepted", "import_one(%s) with UID %r accepted although %s holds it" % (name, uid, holders))
                elif isinstance(exc, DuplicateUidError):
                    self.v("C06", "C06.false-uid-conflict", "import_one(%s) with UID %r raised DuplicateUidError; holders of that UID: none (members %s)" % (name, uid, sorted(model)))
                if uid in self.nontrivial.setdefault("uids", set()) and not holders:
                    self.nontrivial["reuse"] = self.nontrivial.get("reuse", 0) + 1
            if op.get("invalid") and exc is None:
                self.v("C14", "C14.invalid-body-accepted", "import_one(%s) accepted an invalid body (%s)" % (name, op["invalid"]))
        elif k == "delete":
            et = self.resolve_etag(op.get("etag"))
            if et is not None and mode == "op":
                must_fail = cur is None or cur["etag"] != et
                if must_fail:
                    self.nontrivial.setdefault("refused", set()).add(name)
                    if exc is None:
                        self.v("C03", "C03.false-precondition-executed", "delete_one(%s, etag=%s) succeeded; current etag %s" % (name, et, cur["etag"] if cur else None), api="delete_one")
                else:
                    self.nontrivial.setdefault("executed", set()).add(name)
                    if isinstance(exc, InvalidETag):
                        self.v("C03", "C03.true-precondition-refused", "delete_one(%s, etag=current) raised InvalidETag" % name, api="delete_one")
        # ---- effect (C01): follow the acknowledgement
        expect = dict(model)
        if exc is None:
            if k == "import":
                expect[target] = {"pending": op["body"].encode("latin-1"), "ctype": op["ctype"]}
            else:
                expect.pop(name, None)
            self.nontrivial["succ"] = self.nontrivial.get("succ", 0) + 1
        else:
            self.nontrivial["fail"] = self.nontrivial.get("fail", 0) + 1
            if not isinstance(exc, (DuplicateUidError, InvalidETag, InvalidFileContents, NoSuchItem)) and mode == "op":
                self.count("unexpected_exception." + type(exc).__name__)
        if mode == "fault":
            # injected I/O error: the operation may have failed or not; the
            # target may be old or new, nothing else may differ
            for n, m in model.items():
                if n != target and (n not in obs or obs[n][1] != m["bytes"]):
                    self.v("C01", "C01.io-error-damaged-other-member", "after an injected %s during %s(%s): %s changed" % ((op.get("fault") or op.get("rfault"))["errno"], k, name, n))
            for n in obs:
                if n != target and n not in model:
                    self.v("C01", "C01.io-error-created-member", "after an injected I/O error: %s appeared" % n)
            if target in obs or target in model:
                got = obs.get(target)
                old = model.get(target)
                okvals = [old["bytes"] if old else None]
                if k == "import":
                    okvals.append("NEW")
                else:
                    okvals.append(None)
                if got is None:
                    if None not in okvals:
                        self.v("C01", "C01.io-error-lost-member", "after an injected I/O error during import_one(%s) the member is gone" % target)
                elif got[1] != (old["bytes"] if old else b"\0") and not (k == "import" and (got[1] == op["body"].encode("latin-1") or icalparse.semantically_equal(op["body"].encode("latin-1"), got[1]))):
                    self.v("C01", "C01.io-error-wrong-data", "after an injected I/O error %s holds neither old nor new bytes" % target)
            # adopt what is there
            self.model = {}
            for n, (e, d) in obs.items():
                self.learn(n, e, d, model.get(n))
            return
        self.compare(obs, expect, "C01.nonsuccess-changed-state" if exc is not None else "C01.state-differs-from-acknowledged", k, exc)
        if exc is None and k == "import" and res is not None and target in obs and res[1] != obs[target][0]:
            self.v("C02", "C02.put-etag-differs", "import_one(%s) returned etag %s, iter_with_etag shows %s" % (target, res[1], obs[target][0]))
        # new model
        self.model = {}
        for n, (e, d) in obs.items():
            self.learn(n, e, d, model.get(n))
        if len(self.samples) < 1 and len(self.ops) == 6:
            self.samples.append({"backend": backend, "ops": [{x: (y[:50] if isinstance(y, str) else y) for x, y in o.items()} for o in self.ops]})

    def compare(self, obs, expect, oracle, opkind, exc=None):
        backend = self.cfg["backend"]
        for n, m in expect.items():
            if backend == "vdir" and not n.lower().endswith((".ics", ".vcf")):
                continue
            if n not in obs:
                self.v("C01", oracle, "%s is missing after %s%s" % (n, opkind, " (%s)" % type(exc).__name__ if exc else ""), what="missing")
                continue
            if "pending" in m:
                up = m["pending"]
                got = obs[n][1]
                calish = n.lower().endswith(".ics") or m["ctype"] == "text/calendar"
                if not (got == up or (calish and icalparse.semantically_equal(up, got))):
                    self.v("C01", "C01.served-differs-from-upload", "%s: %s" % (n, icalparse.diff(up, got) if calish else "bytes differ"), ext=n.rsplit(".", 1)[-1])
            elif obs[n][1] != m["bytes"]:
                self.v("C01", oracle, "%s changed after %s%s" % (n, opkind, " (%s)" % type(exc).__name__ if exc else ""), what="changed")
        for n in obs:
            if n not in expect:
                self.v("C01", oracle, "%s appeared after %s" % (n, opkind), what="extra")

    def learn(self, n, etag, data, old):
        uid = icalparse.first_uid(data) if n.lower().endswith(".ics") else None
        self.model[n] = {"bytes": data, "etag": etag, "uid": uid}
        h = self.etag_hist.setdefault(n, [])
        if not h or h[-1] != etag:
            h.append(etag)
        if uid is not None:
            self.nontrivial.setdefault("uids", set()).add(uid)
        bh = self.bytes_hist.setdefault(n, [])
        if not bh or bh[-1] != data:
            bh.append(data)
        eb = self.etag_bytes.setdefault(n, {})
        be = self.bytes_etag.setdefault(n, {})
        d = hashlib.sha1(data).hexdigest()
        if etag in eb and eb[etag] != d:
            self.v("C02", "C02.same-etag-different-bytes", "%s: etag %s carried two different contents" % (n, etag))
        if d in be and be[d] != etag:
            self.v("C02", "C02.same-bytes-different-etag", "%s: identical bytes carried etags %s and %s" % (n, be[d], etag))
        eb[etag] = d
        be[d] = etag
        if len(eb) >= 3:
            self.nontrivial.setdefault("paths3", set()).add(n)
        want = hashlib.md5(data).hexdigest() if self.cfg["backend"] == "vdir" else git_blob_id(data)
        if want != etag:
            self.count("etag_not_content_hash")
