"""E-CRASH: process death at every intercepted fs mutation (DESIGN.md 4/C04).

One run = one (back end, pre-state, victim operation).  A dry run measures the
victim's N mutation events and its post-state; then crash images are produced
for chosen k in 1..N (and torn variants of write events), each followed by a
restart (fresh store objects) and the read-back oracle.
"""

import gc
import hashlib
import os
import random
import shutil
import subprocess

from .. import gen, icalparse
from ..rng import H
from ..simfs import FS, SimCrash
from ..world import Arena, rmtree_real

# "treecfg"/"barecfg": git stores of the older layout, whose properties live in an
# [xandikos] section of the repository config (RepoCollectionMetadata) instead of a
# committed .xandikos file
BACKENDS = ("tree", "bare", "vdir", "tree", "bare", "vdir", "treecfg", "barecfg")


def git_blob_id(data):
    return hashlib.sha1(b"blob %d\0" % len(data) + data).hexdigest()


def open_store(backend, path):
    from xandikos.icalendar import ICalendarFile
    from xandikos.vcard import VCardFile

    if backend == "vdir":
        from xandikos.store.vdir import VdirStore

        st = VdirStore.open_from_path(path)
    else:
        from xandikos.store.git import GitStore

        st = GitStore.open_from_path(path)
    st.load_extra_file_handler(ICalendarFile)
    st.load_extra_file_handler(VCardFile)
    return st


def create_store(backend, path):
    from xandikos.icalendar import ICalendarFile
    from xandikos.vcard import VCardFile

    if backend == "vdir":
        from xandikos.store.vdir import VdirStore

        st = VdirStore.create(path)
    elif backend.startswith("bare"):
        from xandikos.store.git import BareGitStore

        st = BareGitStore.create(path)
    else:
        from xandikos.store.git import TreeGitStore

        st = TreeGitStore.create(path)
    if backend.endswith("cfg"):
        cfg = st.repo.get_config()
        cfg.set((b"xandikos",), b"type", b"calendar")
        cfg.write_to_path()
    st.load_extra_file_handler(ICalendarFile)
    st.load_extra_file_handler(VCardFile)
    return st


def close_store(st):
    try:
        rp = getattr(st, "repo", None)
        if rp is not None:
            rp.close()
    except Exception:
        pass


META_GET = {
    "displayname": "get_displayname",
    "description": "get_description",
    "color": "get_color",
    "comment": "get_comment",
}


def read_meta(st, backend):
    out = {}
    for k, g in META_GET.items():
        if backend == "vdir" and k == "comment":
            continue
        try:
            out[k] = getattr(st, g)()
        except KeyError:
            out[k] = None
    if backend.endswith("cfg"):
        # stored explicitly there (elsewhere the type is a guess from the members)
        try:
            out["type"] = st.get_type()
        except KeyError:
            out["type"] = None
    return out


def read_state(st, backend):
    """-> {"members": {name: (etag, bytes)}, "meta": {...}}; raises on any
    failure to read (that is the oracle's business)."""
    members = {}
    for name, ctype, etag in st.iter_with_etag():
        f = st.get_file(name, ctype, etag)
        data = b"".join(f.content)
        members[name] = (etag, data)
    return {"members": members, "meta": read_meta(st, backend)}


def dir_digest(path):
    h = hashlib.sha1()
    for root, dirs, files in os.walk(path):
        dirs.sort()
        for fn in sorted(files):
            p = os.path.join(root, fn)
            try:
                with open(p, "rb") as f:
                    d = f.read()
            except OSError:
                d = b"?"
            h.update(os.path.relpath(p, path).encode() + b"\0" + hashlib.sha1(d).digest())
    return h.hexdigest()


def make_body(r, name, uid):
    if name.endswith(".ics"):
        return gen.ics(r, uid), "text/calendar"
    if name.endswith(".vcf"):
        return gen.vcf(r, uid=uid), "text/vcard"
    return gen.opaque(r), "application/octet-stream"


VICTIMS = ["create", "replace", "replace", "noop", "delete", "meta_displayname", "meta_description", "meta_color", "meta_comment", "meta_unset", "get_ctag", "iter_changes"]


class CrashRun:
    def __init__(self, seed, tier, tag, plan=None):
        self.seed = seed
        self.tier = tier
        self.tag = tag
        self.plan = plan  # replay: {"backend","pre","victim","points":[(k,torn)]}
        self.violations = []
        self.stats = {}
        self.nontrivial = set()
        self.images = 0
        self.samples = []

    def count(self, k, n=1):
        self.stats[k] = self.stats.get(k, 0) + n

    def v(self, oracle, detail, **sig):
        s = {"oracle": oracle}
        s.update(sig)
        self.violations.append({"prop": "C04", "oracle": oracle, "sig": s, "step": None, "detail": str(detail)[:700]})

    # ---------------------------------------------------------------- plan
    def make_plan(self):
        r = random.Random(H("crashplan", self.seed))
        backend = r.choice(BACKENDS)
        exts = [".ics", ".ics", ".vcf"] if backend == "vdir" else [".ics", ".ics", ".vcf", ".txt"]
        names = []
        pre = []
        n = r.randint(0, 12)
        live = {}
        for i in range(n):
            k = r.random()
            if live and k < 0.2:
                nm = r.choice(sorted(live))
                pre.append({"op": "delete", "name": nm})
                del live[nm]
            elif live and k < 0.45:
                nm = r.choice(sorted(live))
                body, ct = make_body(r, nm, live[nm])
                pre.append({"op": "import", "name": nm, "body": body.decode("latin-1"), "ctype": ct})
            elif k < 0.55:
                key = r.choice(["displayname", "description", "color"] + ([] if backend == "vdir" else ["comment"]))
                val = gen.color(r) if key == "color" else gen.prop_text(r, allow_newline=False)
                pre.append({"op": "meta", "key": key, "value": val})
            else:
                nm = "%s%d%s" % (r.choice(["a", "b", "ev", "item"]), i, r.choice(exts))
                uid = "uid-%d" % i
                body, ct = make_body(r, nm, uid)
                pre.append({"op": "import", "name": nm, "body": body.decode("latin-1"), "ctype": ct})
                live[nm] = uid
        if backend != "vdir" and r.random() < 0.3:
            pre.append({"op": "gitgc"})
        vk = r.choice(VICTIMS)
        if backend == "vdir" and vk in ("meta_comment", "get_ctag", "iter_changes"):
            vk = "replace"
        if vk in ("replace", "noop", "delete") and not live:
            vk = "create"
        victim = {"kind": vk}
        if vk == "create":
            nm = "new%s" % r.choice(exts)
            body, ct = make_body(r, nm, "uid-new")
            victim.update(name=nm, body=body.decode("latin-1"), ctype=ct)
        elif vk in ("replace", "noop", "delete"):
            nm = r.choice(sorted(live))
            victim["name"] = nm
            if vk == "replace":
                body, ct = make_body(r, nm, live[nm])
                victim.update(body=body.decode("latin-1"), ctype=ct)
                if r.random() < 0.4:
                    # a conditional replace (If-Match with the current etag): its own code path in the stores
                    victim["cond"] = True
        elif vk.startswith("meta_"):
            key = vk[5:]
            if key == "unset":
                key = r.choice(["displayname", "description"])
                victim.update(key=key, value=None)
            else:
                victim.update(key=key, value=gen.color(r) if key == "color" else gen.prop_text(r, allow_newline=False))
        return {"backend": backend, "pre": pre, "victim": victim, "points": None}

    # ------------------------------------------------------------ execution
    def apply_pre(self, st, backend, pre, path):
        for op in pre:
            if op["op"] == "import":
                st.import_one(op["name"], op["ctype"], [op["body"].encode("latin-1")])
            elif op["op"] == "delete":
                st.delete_one(op["name"])
            elif op["op"] == "meta":
                try:
                    getattr(st, "set_" + op["key"])(op["value"])
                except NotImplementedError:
                    pass
            elif op["op"] == "gitgc":
                close_store(st)
                subprocess.run(["git", "-c", "safe.directory=*", "gc", "-q"], cwd=path, capture_output=True, timeout=60)
                st = open_store(backend, path)
        return st

    def do_victim(self, st, backend, victim, state):
        k = victim["kind"]
        if k in ("create", "replace"):
            kw = {}
            if victim.get("cond") and victim["name"] in state["members"]:
                kw["replace_etag"] = state["members"][victim["name"]][0]
            return st.import_one(victim["name"], victim["ctype"], [victim["body"].encode("latin-1")], **kw)
        if k == "noop":
            etag, data = state["members"][victim["name"]]
            ct = "text/calendar" if victim["name"].endswith(".ics") else "text/vcard" if victim["name"].endswith(".vcf") else "application/octet-stream"
            return st.import_one(victim["name"], ct, [data])
        if k == "delete":
            return st.delete_one(victim["name"])
        if k.startswith("meta_"):
            return getattr(st, "set_" + victim["key"])(victim["value"])
        if k == "get_ctag":
            return st.get_ctag()
        if k == "iter_changes":
            return list(st.iter_changes(None, st.get_ctag()))
        raise AssertionError(k)

    def run(self):
        arena = Arena(self.tag)
        try:
            return self._run(arena)
        finally:
            FS.active = False
            arena.destroy()

    def _run(self, arena):
        plan = self.plan or self.make_plan()
        backend = plan["backend"]
        victim = plan["victim"]
        pre_dir = os.path.join(arena.path, "pre")
        work = os.path.join(arena.path, "work")
        FS.reset()
        # ---- pre-state (no faults)
        st = create_store(backend, pre_dir)
        try:
            st = self.apply_pre(st, backend, plan["pre"], pre_dir)
        except Exception as e:  # a pre-history the code refuses is not a C04 matter
            close_store(st)
            return self.result(plan, skipped="pre-history failed: %r" % (e,))
        pre_state = read_state(st, backend)
        close_store(st)
        del st
        gc.collect()
        pre_digest = dir_digest(pre_dir)
        # ---- dry run
        shutil.copytree(pre_dir, work, symlinks=True)
        FS.reset()
        FS.log = []
        FS.active = True
        st = open_store(backend, work)
        base = FS.mut_seq
        dry_exc = None
        try:
            self.do_victim(st, backend, victim, pre_state)
        except Exception as e:
            dry_exc = e
        n_events = FS.mut_seq - base
        events = list(FS.log[base:])
        FS.active = False
        FS.log = None
        close_store(st)
        del st
        gc.collect()
        if dry_exc is not None:
            return self.result(plan, skipped="victim refused without faults: %r" % (dry_exc,))
        st = open_store(backend, work)
        post_state = read_state(st, backend)
        close_store(st)
        del st
        post_digest = dir_digest(work)
        rmtree_real(work)
        self.count("victims." + victim["kind"])
        self.count("backend." + backend)
        self.count("events_per_victim_total", n_events)
        if n_events == 0:
            return self.result(plan, n_events=0)
        # ---- crash points
        points = plan.get("points")
        if points is None:
            r = random.Random(H("crashpoints", self.seed))
            allp = []
            for k in range(1, n_events + 1):
                allp.append((k, None))
                kind, paths, nbytes = events[k - 1]
                if kind == "write" and nbytes and nbytes > 1:
                    allp.append((k, r.choice([0.0, 0.5, r.random(), 1.0])))
            if self.tier == "quick" and len(allp) > 12:
                points = sorted(r.sample(allp, 12), key=lambda x: (x[0], x[1] is not None))
            else:
                points = allp
            self.exhaustive_for_victim = len(points) == len(allp)
        for (k, torn) in points:
            self.crash_once(plan, backend, victim, pre_dir, work, pre_state, post_state, pre_digest, post_digest, base, k, torn, events)
            if self.violations:
                plan = dict(plan)
                plan["points"] = [(k, torn)]
                break
        return self.result(plan, n_events=n_events, events=events)

    def crash_once(self, plan, backend, victim, pre_dir, work, pre_state, post_state, pre_digest, post_digest, base, k, torn, events):
        rmtree_real(work)
        shutil.copytree(pre_dir, work, symlinks=True)
        FS.reset()
        FS.active = True
        st = open_store(backend, work)
        if FS.mut_seq != base:
            FS.active = False
            raise RuntimeError("nondeterministic open: %d vs %d mutations" % (FS.mut_seq, base))
        FS.crash_at = base + k
        FS.torn_frac = torn
        returned = False
        try:
            self.do_victim(st, backend, victim, pre_state)
            returned = True
        except SimCrash:
            pass
        except BaseException:  # noqa: BLE001 - whatever the dying process raised is irrelevant
            pass
        crashed = FS.crashed
        ev = FS.crash_event
        FS.active = False
        close_store(st)
        del st
        gc.collect()
        FS.reset()
        if not crashed:
            self.count("crash_point_not_reached")
            return
        self.images += 1
        self.count("fault.crash")
        if torn is not None:
            self.count("fault.torn_write")
        ekind = ev[0] if ev else "?"
        self.count("crash_before." + ekind)
        dd = dir_digest(work)
        inter = dd not in (pre_digest, post_digest)
        if inter:
            self.nontrivial.add((backend, victim["kind"], ekind, k, torn is not None))
        if os.path.exists(os.path.join(work, ".git", "index.lock")) or os.path.exists(os.path.join(work, "index.lock")):
            self.count("stale_index_lock")
        if len(self.samples) < 2:
            self.samples.append({"backend": backend, "victim": {x: (y[:60] if isinstance(y, str) else y) for x, y in victim.items()}, "pre_ops": len(plan["pre"]),
                                 "crash_at_event": k, "of": len(events), "event": [ekind, [os.path.relpath(p, work) if p.startswith(work) else p for p in (ev[1] if ev else ())]], "torn_frac": torn})
        # ---- restart + oracle
        sig = dict(backend=backend, victim=victim["kind"], event=ekind)
        where = "crash before event %d/%d (%s %s%s)" % (k, len(events), ekind, [os.path.relpath(p, work) for p in (ev[1] if ev else ())], ", torn %.2f" % torn if torn is not None else "")
        FS.active = True
        try:
            try:
                st = open_store(backend, work)
            except Exception as e:
                self.v("C04.store-does-not-open", "%s: %r" % (where, e), **sig)
                return
            try:
                try:
                    state = read_state(st, backend)
                except Exception as e:
                    self.v("C04.read-back-fails", "%s: %s: %r" % (where, type(e).__name__, e), **sig)
                    return
            finally:
                close_store(st)
                del st
        finally:
            FS.active = False
        vname = victim.get("name")
        for name, (etag, data) in pre_state["members"].items():
            if name == vname:
                continue
            got = state["members"].get(name)
            if got is None:
                self.v("C04.other-member-lost", "%s: %s is gone" % (where, name), **sig)
            elif got[1] != data:
                self.v("C04.other-member-altered", "%s: %s changed (%d -> %d bytes)" % (where, name, len(data), len(got[1])), **sig)
        for name, (etag, data) in state["members"].items():
            if name != vname and name not in pre_state["members"]:
                self.v("C04.unexpected-member", "%s: %s appeared" % (where, name), **sig)
            want = git_blob_id(data) if backend != "vdir" else hashlib.md5(data).hexdigest()
            if etag != want:
                self.v("C04.etag-does-not-match-content", "%s: %s etag %s content hashes to %s" % (where, name, etag, want), **sig)
            kind = "ics" if name.endswith(".ics") else "vcf" if name.endswith(".vcf") else None
            if kind and icalparse.well_formed(data, kind):
                self.v("C04.member-incomplete", "%s: %s does not parse: %s" % (where, name, icalparse.well_formed(data, kind)), **sig)
        if vname is not None:
            old = pre_state["members"].get(vname)
            new = post_state["members"].get(vname)
            got = state["members"].get(vname)
            allowed = [old[1] if old else None, new[1] if new else None]
            if (got[1] if got else None) not in allowed:
                self.v("C04.victim-neither-old-nor-new", "%s: %s has %s, old=%s new=%s" % (
                    where, vname, "absent" if got is None else "%d bytes" % len(got[1]), "absent" if old is None else "%d bytes" % len(old[1]), "absent" if new is None else "%d bytes" % len(new[1])), **sig)
        for key, val in state["meta"].items():
            allowed = (pre_state["meta"].get(key), post_state["meta"].get(key))
            if val not in allowed:
                self.v("C04.metadata-third-value", "%s: %s is %r, old=%r new=%r" % (where, key, val, allowed[0], allowed[1]), key=key, **sig)
        if backend != "vdir":
            self.git_checks(work, where, sig)
        if vname is not None and not self.violations and (k + (1 if torn is not None else 0)) % 2 == 0:
            self.probe(backend, victim, work, state, where, sig)

    SHORT = {".ics": b"BEGIN:VCALENDAR\r\nVERSION:2.0\r\nPRODID:-//p//EN\r\nBEGIN:VEVENT\r\nUID:%s\r\nDTSTAMP:20200101T000000Z\r\nDTSTART:20200102T000000Z\r\nSUMMARY:p\r\nEND:VEVENT\r\nEND:VCALENDAR\r\n",
             ".vcf": b"BEGIN:VCARD\r\nVERSION:3.0\r\nUID:%s\r\nFN:P\r\nN:P;;;;\r\nEND:VCARD\r\n"}

    def probe(self, backend, victim, work, state, where, sig):
        """The recovered state must also *behave* like the old or the new state: the client retries
        the interrupted operation, then writes something shorter to the same name; whatever is
        acknowledged must read back, and nothing else may move."""
        vname = victim["name"]
        self.count("recovery_probes")
        FS.active = True
        try:
            st = open_store(backend, work)
            try:
                def members():
                    return read_state(st, backend)["members"]

                def same(a, b):
                    return a == b or (vname.endswith(".ics") and icalparse.semantically_equal(a, b))

                steps = []
                if victim["kind"] in ("create", "replace"):
                    steps.append(("retry", victim["body"].encode("latin-1"), victim["ctype"]))
                elif victim["kind"] == "delete":
                    steps.append(("retry-delete", None, None))
                ext = vname[vname.rfind("."):] if "." in vname else ""
                uid = (icalparse.first_uid(victim.get("body", "").encode("latin-1")) or "uid-probe") if ext == ".ics" else "card-probe"
                if ext == ".ics" and victim["kind"] not in ("create", "replace"):
                    cur = state["members"].get(vname)
                    uid = (icalparse.first_uid(cur[1]) if cur else None) or "uid-probe"
                short = self.SHORT[ext] % uid.encode("utf-8") if ext in self.SHORT else b"p"
                steps.append(("shorter", short, "text/calendar" if ext == ".ics" else "text/vcard" if ext == ".vcf" else "application/octet-stream"))
                for what, body, ct in steps:
                    try:
                        if what == "retry-delete":
                            st.delete_one(vname)
                        else:
                            st.import_one(vname, ct, [body])
                    except Exception:  # noqa: BLE001 - not acknowledged, nothing claimed
                        continue
                    try:
                        now = members()
                    except Exception as e:  # noqa: BLE001
                        self.v("C04.read-back-fails", "%s; then %s of %s: %s: %r" % (where, what, vname, type(e).__name__, e), after="probe", **sig)
                        return
                    got = now.get(vname)
                    if what == "retry-delete":
                        if got is not None:
                            self.v("C04.acknowledged-after-recovery-not-applied", "%s; then delete of %s acknowledged, but it is still there" % (where, vname), probe=what, **sig)
                    elif got is None or not same(got[1], body):
                        self.v("C04.acknowledged-after-recovery-not-applied", "%s; then %s write of %s (%d bytes) acknowledged, read-back %s" % (
                            where, what, vname, len(body), "absent" if got is None else "%d bytes that are not the upload" % len(got[1])), probe=what, **sig)
                    for n, (e, d) in state["members"].items():
                        if n != vname and (n not in now or now[n][1] != d):
                            self.v("C04.other-member-altered", "%s; then %s of %s changed %s" % (where, what, vname, n), after="probe", **sig)
            finally:
                close_store(st)
                del st
        except Exception as e:  # noqa: BLE001
            self.v("C04.store-does-not-open", "%s; probe: %r" % (where, e), after="probe", **sig)
        finally:
            FS.active = False

    def git_checks(self, work, where, sig):
        self.count("git.fsck")
        env = dict(os.environ)
        env["GIT_CONFIG_GLOBAL"] = "/dev/null"
        p = subprocess.run(["git", "-c", "safe.directory=*", "fsck", "--strict", "--no-dangling", "--connectivity-only"], cwd=work, env=env, capture_output=True, timeout=60)
        out = (p.stdout + p.stderr).decode("utf-8", "replace")
        bad = [l for l in out.splitlines() if l.startswith(("error", "missing", "broken", "fatal", "bad"))]
        if p.returncode != 0 or bad:
            self.v("C04.reference-to-missing-object", "%s: git fsck rc=%s: %s" % (where, p.returncode, (bad or [out[:300]])[:3]), **sig)
            return
        # independent walker over refs and index
        from dulwich.repo import Repo

        try:
            rp = Repo(work)
        except Exception as e:
            self.v("C04.repository-unreadable", "%s: %r" % (where, e), **sig)
            return
        try:
            todo = []
            for ref, sha in rp.get_refs().items():
                todo.append(sha)
            seen = set()
            while todo:
                s = todo.pop()
                if s in seen:
                    continue
                seen.add(s)
                try:
                    o = rp[s]
                except KeyError:
                    self.v("C04.reference-to-missing-object", "%s: object %s is referenced but missing" % (where, s.decode()), **sig)
                    return
                tn = o.type_name
                if tn == b"commit":
                    todo.append(o.tree)
                    todo.extend(o.parents)
                elif tn == b"tree":
                    for e in o.items():
                        todo.append(e.sha)
            if rp.has_index():
                for name, sha, mode in rp.open_index().iterobjects():
                    if sha not in rp.object_store:
                        self.v("C04.reference-to-missing-object", "%s: index entry %s -> missing %s" % (where, name, sha.decode()), **sig)
                        return
        finally:
            rp.close()

    def result(self, plan, skipped=None, n_events=None, events=None):
        return {
            "violations": self.violations[:5],
            "plan": plan,
            "stats": self.stats,
            "nontrivial_keys": [list(x) for x in sorted(self.nontrivial, key=repr)],
            "images": self.images,
            "skipped": skipped,
            "n_events": n_events,
            "samples": self.samples,
            "exhaustive_for_victim": getattr(self, "exhaustive_for_victim", False),
            "digest": hashlib.sha256(repr((sorted(self.stats.items()), [v["oracle"] for v in self.violations], n_events)).encode()).hexdigest(),
            "world": {"virtual_s": 0.0, "nreq": 0},
            "fs": {"bypass": len(FS.bypass), "bypass_sample": FS.bypass[:3]},
        }


# ------------------------------------------------------------------------------
# HTTP-level victims: the same crash model with the web layer's own fs calls
# inside the crash window (DESIGN.md 4/C04, "also the same victims issued as
# HTTP requests").
class CrashHttpRun:
    COLLS = ["/user/calendars/calendar/", "/user/contacts/addressbook/", "/user/calendars/bare/"]

    def __init__(self, seed, tier, tag, plan=None):
        self.seed = seed
        self.tier = tier
        self.tag = tag
        self.plan = plan
        self.violations = []
        self.stats = {}
        self.nontrivial = set()
        self.images = 0
        self.samples = []

    def count(self, k, n=1):
        self.stats[k] = self.stats.get(k, 0) + n

    def v(self, oracle, detail, **sig):
        s = {"oracle": oracle, "level": "http"}
        s.update(sig)
        self.violations.append({"prop": "C04", "oracle": oracle, "sig": s, "step": None, "detail": str(detail)[:700]})

    def make_plan(self):
        from .. import dav

        r = random.Random(H("crashhttp", self.seed))
        cfg = {"seed": self.seed, "frontend": r.choice(["wsgi", "wsgi", "aiohttp"]), "prefix": r.choice(["/", "/dav/"]), "autocreate": "defaults", "strict": True, "listing": False}
        pre = []
        live = {}
        for i in range(r.randint(1, 6)):
            coll = r.choice(self.COLLS)
            ext = ".vcf" if "contacts" in coll else ".ics"
            nm = "p%d%s" % (i, ext)
            body, ct = make_body(r, nm, "uid-%d" % i)
            pre.append({"method": "PUT", "path": coll + nm, "ctype": ct, "body": body.decode("latin-1")})
            live[coll + nm] = "uid-%d" % i
        if r.random() < 0.4:
            pre.append({"method": "PROPPATCH", "path": r.choice(self.COLLS), "ctype": "text/xml", "body": dav.proppatch_body([("set", dav.P_DISPLAYNAME, "before")]).decode("latin-1")})
        k = r.choice(["create", "replace", "replace", "delete", "proppatch", "post", "noop"])
        if k in ("replace", "delete", "noop") and not live:
            k = "create"
        if k == "create":
            coll = r.choice(self.COLLS)
            nm = "new" + (".vcf" if "contacts" in coll else ".ics")
            body, ct = make_body(r, nm, "uid-new")
            victim = {"method": "PUT", "path": coll + nm, "ctype": ct, "body": body.decode("latin-1")}
        elif k in ("replace", "noop"):
            p = r.choice(sorted(live))
            if k == "noop":
                body = [x for x in pre if x.get("path") == p][-1]["body"].encode("latin-1")
                ct = "text/vcard" if p.endswith(".vcf") else "text/calendar"
            else:
                body, ct = make_body(r, p, live[p])
            victim = {"method": "PUT", "path": p, "ctype": ct, "body": body.decode("latin-1")}
        elif k == "delete":
            victim = {"method": "DELETE", "path": r.choice(sorted(live))}
        elif k == "post":
            coll = r.choice(self.COLLS)
            nm = "x" + (".vcf" if "contacts" in coll else ".ics")
            body, ct = make_body(r, nm, "uid-post")
            victim = {"method": "POST", "path": coll, "ctype": ct, "body": body.decode("latin-1")}
        else:
            coll = r.choice(self.COLLS)
            instrs = [("set", dav.P_DISPLAYNAME, "after %d" % r.randint(0, 99))]
            if r.random() < 0.5:
                instrs.append(("set", dav.P_COMMENT, "c %d" % r.randint(0, 99)))
            victim = {"method": "PROPPATCH", "path": coll, "ctype": "text/xml", "body": dav.proppatch_body(instrs).decode("latin-1")}
        victim["kind"] = k
        return {"cfg": cfg, "pre": pre, "victim": victim, "points": None}

    def run(self):
        arena = Arena(self.tag)
        try:
            return self._run(arena)
        finally:
            FS.active = False
            arena.destroy()

    def send(self, w, rq):
        h = [("Content-Type", rq["ctype"])] if rq.get("ctype") else []
        return w.req(rq["method"], rq["path"], h, rq.get("body", "").encode("latin-1"))

    def world_on(self, arena, root, cfg):
        from ..world import World

        w = World(arena, cfg)
        w.arena = type("A", (), {"root": root, "path": arena.path, "tmp": arena.tmp, "rel": arena.rel})()
        return w

    def observe_all(self, w):
        from ..observe import observe_collection

        return {c: observe_collection(w, c) for c in self.COLLS}

    def _run(self, arena):
        from ..world import preseed_collection

        plan = self.plan or self.make_plan()
        cfg = plan["cfg"]
        FS.reset()
        w = self.world_on(arena, arena.root, cfg)
        w.boot()
        w.shutdown()
        preseed_collection(arena.root, "/user/calendars/bare/", "bare", "calendar")
        FS.reset()
        w.boot()
        acked = []
        for rq in plan["pre"]:
            r = self.send(w, rq)
            if r is not None and r.status in (200, 201, 204, 207):
                acked.append(rq)
        pre_obs = self.observe_all(w)
        w.shutdown()
        pre_dir = os.path.join(arena.path, "pre")
        shutil.copytree(arena.root, pre_dir, symlinks=True)
        work = os.path.join(arena.path, "work")
        # dry run
        shutil.copytree(pre_dir, work, symlinks=True)
        FS.reset()
        FS.log = []
        w2 = self.world_on(arena, work, cfg)
        w2.boot()
        base = FS.mut_seq
        r = self.send(w2, plan["victim"])
        n_events = FS.mut_seq - base
        events = list(FS.log[base:])
        FS.log = None
        post_obs = self.observe_all(w2)
        w2.shutdown()
        rmtree_real(work)
        self.count("http_victims." + plan["victim"]["kind"])
        if n_events == 0 or r is None or r.status >= 400:
            return self.result(plan, n_events)
        points = plan.get("points")
        if points is None:
            rr = random.Random(H("crashhttp-points", self.seed))
            allp = []
            for k in range(1, n_events + 1):
                allp.append((k, None))
                kind, paths, nbytes = events[k - 1]
                if kind == "write" and nbytes and nbytes > 1:
                    allp.append((k, rr.choice([0.0, 0.5, rr.random()])))
            points = sorted(rr.sample(allp, 8), key=lambda x: (x[0], x[1] is not None)) if (self.tier == "quick" and len(allp) > 8) else allp
        for (k, torn) in points:
            rmtree_real(work)
            shutil.copytree(pre_dir, work, symlinks=True)
            FS.reset()
            w3 = self.world_on(arena, work, cfg)
            w3.boot()
            if FS.mut_seq != base:
                w3.shutdown()
                raise RuntimeError("nondeterministic start-up: %d vs %d mutations" % (FS.mut_seq, base))
            FS.crash_at = base + k
            FS.torn_frac = torn
            try:
                self.send(w3, plan["victim"])
            except SimCrash:
                pass
            except BaseException:  # noqa: BLE001
                pass
            if not FS.crashed:
                w3.shutdown()
                continue
            ev = FS.crash_event
            self.images += 1
            self.count("fault.crash")
            self.count("http_crash_images")
            if torn is not None:
                self.count("fault.torn_write")
            w3.crash_restart()
            sig = dict(frontend=cfg["frontend"], victim=plan["victim"]["kind"], event=ev[0] if ev else "?")
            where = "%s %s: crash before event %d/%d (%s %s%s)" % (plan["victim"]["method"], plan["victim"]["path"], k, n_events, ev[0] if ev else "?",
                                                           [os.path.relpath(p, work) for p in (ev[1] if ev else ())], ", torn %.2f" % torn if torn is not None else "")
            try:
                obs = self.observe_all(w3)
            except Exception as e:  # noqa: BLE001
                self.v("C04.read-back-fails", "%s: %r" % (where, e), **sig)
                w3.shutdown()
                break
            self.nontrivial.add(("http", cfg["frontend"], plan["victim"]["kind"], ev[0] if ev else "?", k, torn is not None))
            self.judge(plan, pre_obs, post_obs, obs, where, sig)
            if not self.violations and plan["victim"]["method"] in ("PUT", "DELETE"):
                self.probe(w3, plan["victim"], where, sig)
            w3.shutdown()
            if len(self.samples) < 1:
                self.samples.append({"level": "http", "frontend": cfg["frontend"], "victim": {x: (y[:50] if isinstance(y, str) else y) for x, y in plan["victim"].items()}, "crash_at_event": k, "of": n_events, "event": ev[0] if ev else None})
            if self.violations:
                plan = dict(plan, points=[(k, torn)])
                break
        return self.result(plan, n_events)

    def probe(self, w, victim, where, sig):
        """The client retries the interrupted request after the restart; an acknowledged retry must
        be visible (an acknowledged DELETE means 404, an acknowledged PUT means that body)."""
        self.count("recovery_probes")
        try:
            r = self.send(w, victim)
            if r is None or r.status not in (200, 201, 204):
                return
            g = w.req("GET", victim["path"])
            if victim["method"] == "DELETE":
                if g is not None and g.status == 200:
                    self.v("C04.acknowledged-after-recovery-not-applied", "%s; the retried DELETE is answered %s, GET still %s" % (where, r.status, g.status), probe="retry-delete", **sig)
            else:
                body = victim["body"].encode("latin-1")
                if g is None or g.status != 200 or not (g.body == body or icalparse.semantically_equal(body, g.body)):
                    self.v("C04.acknowledged-after-recovery-not-applied", "%s; the retried PUT is answered %s, GET gives %s" % (where, r.status, g.status if g else None), probe="retry", **sig)
        except Exception as e:  # noqa: BLE001
            self.v("C04.read-back-fails", "%s; probe: %r" % (where, e), after="probe", **sig)

    def judge(self, plan, pre, post, obs, where, sig):
        vpath = plan["victim"]["path"]
        for c in self.COLLS:
            o, a, b = obs[c], pre[c], post[c]
            if not o.exists:
                self.v("C04.collection-does-not-open", "%s: PROPFIND %s -> %s" % (where, c, o.status), **sig)
                continue
            names = set(a.members) | set(b.members) | set(o.members)
            for n in sorted(names):
                old = a.members.get(n, {}).get("body") if a.members.get(n, {}).get("status") == 200 else None
                new = b.members.get(n, {}).get("body") if b.members.get(n, {}).get("status") == 200 else None
                gm = o.members.get(n)
                if gm is not None and gm.get("status") != 200:
                    self.v("C04.read-back-fails", "%s: GET %s%s -> %s" % (where, c, n, gm.get("status")), **sig)
                    continue
                got = gm.get("body") if gm else None
                if got not in (old, new):
                    self.v("C04.victim-neither-old-nor-new" if (c + n == vpath or old != new) else "C04.other-member-altered",
                           "%s: %s%s is %s (old %s, new %s)" % (where, c, n, "absent" if got is None else "%d bytes" % len(got), "absent" if old is None else "%d bytes" % len(old), "absent" if new is None else "%d bytes" % len(new)), **sig)
                if got is not None:
                    kind = "ics" if n.endswith(".ics") else "vcf" if n.endswith(".vcf") else None
                    if kind and icalparse.well_formed(got, kind):
                        self.v("C04.member-incomplete", "%s: %s%s does not parse" % (where, c, n), **sig)
            for t, val in o.props.items():
                if val not in (a.props.get(t), b.props.get(t)):
                    self.v("C04.metadata-third-value", "%s: %s %s is %r (old %r, new %r)" % (where, c, t, val, a.props.get(t), b.props.get(t)), key=t.split("}")[1], **sig)

    def result(self, plan, n_events):
        return {"violations": self.violations[:5], "plan": plan, "engine": "crash-http", "stats": self.stats, "nontrivial_keys": [list(x) for x in sorted(self.nontrivial, key=repr)],
                "images": self.images, "n_events": n_events, "samples": self.samples, "skipped": None, "exhaustive_for_victim": False,
                "digest": hashlib.sha256(repr((sorted(self.stats.items()), n_events)).encode()).hexdigest(),
                "world": {"virtual_s": 0.0, "nreq": 0}, "fs": {"bypass": len(FS.bypass), "bypass_sample": FS.bypass[:3]}}
