"""E-CONC: two overlapping HTTP requests on the aiohttp front end.

Interleavings: (a) await points - request B is delivered after a seeded number
of loop iterations of request A, optionally between A's headers and A's body;
(b) worker threads - `asyncio.to_thread` work runs in baton-passing threads
that can be parked at every SimFS event while the event loop serves the other
request.  Oracle: statuses, returned validators/bodies and the audited final
state equal those of A;B or B;A executed sequentially by the same code on
copies of the same directory.
"""

import asyncio
import hashlib
import os
import random
import shutil
from xml.etree import ElementTree as ET

from .. import dav, gen
from ..loop import BatonExecutor
from ..observe import observe_collection
from ..rng import H
from ..simclock import CLOCK
from ..simfs import FS
from ..world import Arena, World, rmtree_real

CAL = "/user/calendars/calendar/"
OTHER = "/user/contacts/addressbook/"
KINDS = {"C05": ("W", "W"), "C02": ("Rget", "W"), "C03": ("Wcond", "Wcond"), "C07": ("Rsync", "W"), "C08": ("Rtags", "W"), "C17": ("Rmulti", "W"),
         # two property updates of one collection (different properties: neither may undo the other)
         "C15": ("Wprop", "Wprop")}
PROP_TAGS = [dav.P_DISPLAYNAME, dav.P_CAL_COLOR, dav.P_CAL_ORDER, dav.P_CAL_DESC]


def make_config(prop, seed, tier):
    r = random.Random(H("conccfg", seed))
    return {"seed": seed, "frontend": "aiohttp", "prefix": r.choice(["/", "/dav/"]), "autocreate": "defaults", "strict": True, "listing": True,
            # C17: the other request is a write, or a second multiget asking for other properties
            "pair": ("Rmulti", "Rmulti2") if (prop == "C17" and r.random() < 0.35) else ("Rsync", "Rsync2") if (prop == "C07" and r.random() < 0.25) else KINDS[prop],
            # (conditional creates also run with worker threads under the scheduler: a create that is
            # handed to a thread can be overtaken between its check and its write)
            "mode": r.choice(["await", "await", "threads"]) if prop == "C03" else "await" if KINDS[prop][0].startswith("W") else r.choice(["await", "threads", "threads"]),
            "variants": 10 if tier == "quick" else 60}


class ConcRun:
    def __init__(self, prop, cfg, plan=None, tag="conc"):
        self.prop = prop
        self.cfg = cfg
        self.plan = plan
        self.tag = tag
        self.violations = []
        self.stats = {}
        self.rng = random.Random(H("concwork", cfg["seed"]))
        self.samples = []
        self.signatures = set()

    def count(self, k, n=1):
        self.stats[k] = self.stats.get(k, 0) + n

    # ---- plan ---------------------------------------------------------------
    def make_plan(self):
        r = self.rng
        pre = []
        for i in range(r.randint(1, 3)):
            pre.append({"name": "m%d.ics" % i, "body": gen.ics(r, "uid-%d" % i, rich=0).decode("latin-1")})
        a, b = self.cfg["pair"]
        return {"pre": pre, "A": self.make_req(a, pre, 0), "B": self.make_req(b, pre, 1), "variants": None}

    def make_req(self, kind, pre, j):
        r = self.rng
        names = [m["name"] for m in pre]
        if kind in ("W", "Wcond"):
            k = r.random()
            if kind == "Wcond" and k < 0.3:
                # "only if it exists" against a conditional delete of the same member
                if j == 0:
                    return {"kind": "put", "name": names[0], "cond": {"If-Match": "*"}, "body": gen.ics(r, "uid-0", rich=0, summary="star").decode("latin-1")}
                return {"kind": "delete", "name": names[0], "cond": r.choice([{"If-Match": "CURRENT"}, {}])}
            if kind == "Wcond":
                tgt = r.choice(["new.ics", names[0]])
                if tgt == "new.ics":
                    return {"kind": "put", "name": tgt, "cond": {"If-None-Match": "*"}, "body": gen.ics(r, "uid-new", rich=0, summary="v%d" % j).decode("latin-1")}
                return {"kind": "put", "name": tgt, "cond": {"If-Match": "CURRENT"}, "body": gen.ics(r, "uid-0", rich=0, summary="v%d" % j).decode("latin-1")}
            lim = 0.35 if self.cfg["pair"][0].startswith("W") else 0.12
            if k < lim:
                return {"kind": "put", "name": "new%d.ics" % j, "cond": {}, "body": gen.ics(r, "uid-new%d" % j, rich=0).decode("latin-1")}
            if k < 0.7:
                i = r.randrange(len(names))
                return {"kind": "put", "name": names[i], "cond": r.choice([{}, {"If-Match": "CURRENT"}]), "body": gen.ics(r, "uid-%d" % i, rich=0, summary="w%d" % j).decode("latin-1")}
            if k < 0.88:
                return {"kind": "delete", "name": r.choice(names), "cond": r.choice([{}, {"If-Match": "CURRENT"}])}
            return {"kind": "proppatch", "value": "name %d" % r.randint(0, 99)}
        if kind == "Wprop":
            # A and B never touch the same property: both effects must survive in either order
            mine = PROP_TAGS[:2] if j == 0 else PROP_TAGS[2:]
            if r.random() < 0.5:
                mine = mine[::-1]
            instrs = []
            for t in mine[:r.randint(1, 2)]:
                if r.random() < 0.8:
                    val = gen.color(r) if t == dav.P_CAL_COLOR else str(r.randint(0, 99)) if t == dav.P_CAL_ORDER else "text %d" % r.randint(0, 999)
                    instrs.append(["set", t, val])
                else:
                    instrs.append(["remove", t, None])
            return {"kind": "proppatchN", "instrs": instrs}
        if kind == "Rmulti2":
            return {"kind": "multiget_partial", "names": names, "mode": r.choice(["comp", "expand"])}
        if kind == "Rget":
            return {"kind": r.choice(["get", "get", "propfind1"]), "name": r.choice(names)}
        if kind == "Rsync":
            return {"kind": "sync", "data": r.random() < 0.7, "token": r.choice(["", "PRE"])}
        if kind == "Rsync2":
            # a sync report on another collection of the same server
            return {"kind": "sync_other", "data": True}
        if kind == "Rtags":
            return {"kind": "propfind0"}
        if kind == "Rmulti":
            return {"kind": "multiget", "names": names + ["new1.ics"]}
        raise AssertionError(kind)

    # ---- request construction -------------------------------------------------
    def build(self, w, req, etags, token):
        cond = []
        for k, v in (req.get("cond") or {}).items():
            cond.append((k, etags.get(req["name"], '"none"') if v == "CURRENT" else v))
        k = req["kind"]
        if k == "put":
            return "PUT", w.target(CAL + req["name"]), [("Content-Type", "text/calendar")] + cond, req["body"].encode("latin-1")
        if k == "delete":
            return "DELETE", w.target(CAL + req["name"]), cond, b""
        if k == "proppatch":
            return "PROPPATCH", w.target(CAL), [dav.XML_CT], dav.proppatch_body([("set", dav.P_DISPLAYNAME, req["value"])])
        if k == "proppatchN":
            return "PROPPATCH", w.target(CAL), [dav.XML_CT], dav.proppatch_body([tuple(i) for i in req["instrs"]])
        if k == "multiget_partial":
            return "REPORT", w.target(CAL), [dav.XML_CT, ("Depth", "1")], dav.partial_data_body("multiget", [w.target(CAL + n) for n in req["names"]], req["mode"])
        if k == "get":
            return "GET", w.target(CAL + req["name"]), [], b""
        if k == "propfind1":
            return "PROPFIND", w.target(CAL), [("Depth", "1"), dav.XML_CT], dav.propfind_body([dav.P_GETETAG])
        if k == "propfind0":
            return "PROPFIND", w.target(CAL), [("Depth", "0"), dav.XML_CT], dav.propfind_body([dav.P_GETETAG, dav.P_GETCTAG_DAV, dav.P_GETCTAG_CS, dav.P_SYNCTOKEN])
        if k == "sync":
            props = (dav.P_GETETAG, dav.P_CALDATA) if req.get("data") else (dav.P_GETETAG,)
            return "REPORT", w.target(CAL), [dav.XML_CT], dav.sync_body(token if req.get("token") == "PRE" else "", props)
        if k == "sync_other":
            return "REPORT", w.target(OTHER), [dav.XML_CT], dav.sync_body("", (dav.P_GETETAG, dav.P_ADDRDATA))
        if k == "multiget":
            return "REPORT", w.target(CAL), [dav.XML_CT, ("Depth", "1")], dav.multiget_body("calendar", [w.target(CAL + n) for n in req["names"]])
        raise AssertionError(k)

    @staticmethod
    def summarize(method, resp):
        if resp is None:
            return ("none",)
        st = resp.status
        if st == 207:
            try:
                rs, extra = dav.parse_multistatus(resp.body)
            except (ET.ParseError, ValueError):
                return (st, "unparseable")
            items = []
            for ms in rs:
                props = []
                for code, pr in ms.propstats:
                    for t, e in sorted(pr.items()):
                        txt = e.text or ""
                        props.append((t.split("}")[1], code, hashlib.sha1(txt.replace("\r\n", "\n").encode()).hexdigest()[:10] if len(txt) > 60 else txt))
                items.append((ms.href, ms.status, tuple(props)))
            return (st, tuple(sorted(items, key=repr)), extra.get("sync-token"))
        body = resp.body or b""
        return (st, resp.header("ETag"), hashlib.sha1(body).hexdigest()[:12] if method == "GET" else None)

    # ---- execution ---------------------------------------------------------------
    def run(self):
        self.arena = Arena(self.tag)
        try:
            return self._run()
        finally:
            FS.active = False
            FS.hook = None
            self.arena.destroy()

    def fresh_world(self, root):
        cfg = dict(self.cfg)
        w = World(self.arena, cfg)
        w.arena = type("A", (), {"root": root, "path": self.arena.path, "tmp": self.arena.tmp, "rel": self.arena.rel})()
        return w

    def state_of(self, w):
        o = observe_collection(w, CAL)
        if self.prop != "C17":
            return (o.fingerprint(),)
        names = sorted(o.members) + ["m0.ics", "new0.ics", "new1.ics"]
        r = w.req("REPORT", CAL, [dav.XML_CT, ("Depth", "1")], dav.multiget_body("calendar", [w.target(CAL + n) for n in sorted(set(names))]))
        return (o.fingerprint(), self.summarize("REPORT", r))

    def _run(self):
        plan = self.plan or self.make_plan()
        CLOCK.reset()
        FS.reset()
        root0 = self.arena.root
        w = World(self.arena, self.cfg)
        w.boot()
        etags = {}
        for m in plan["pre"]:
            r = w.req("PUT", CAL + m["name"], [("Content-Type", "text/calendar")], m["body"].encode("latin-1"))
            etags[m["name"]] = r.header("ETag")
        if any(plan[k]["kind"] == "sync_other" for k in "AB"):
            rr = random.Random(7)
            for i in range(2):
                w.req("PUT", OTHER + "c%d.vcf" % i, [("Content-Type", "text/vcard")], gen.vcf(rr, uid="card-%d" % i))
        o = observe_collection(w, CAL, get_bodies=False)
        token = o.tags.get("sync") or ""
        w.shutdown()
        pre_copy = os.path.join(self.arena.path, "pre")
        shutil.copytree(root0, pre_copy, symlinks=True)
        # sequential references
        refs = []
        for order in ("AB", "BA"):
            d = os.path.join(self.arena.path, "seq" + order)
            shutil.copytree(pre_copy, d, symlinks=True)
            ws = self.fresh_world(d)
            FS.reset()
            ws.boot()
            res = {}
            for key in order:
                m, t, h, b = self.build(ws, plan[key], etags, token)
                res[key] = self.summarize(m, ws.req(m, target=t, headers=h, body=b))
            fin = self.state_of(ws)
            ws.shutdown()
            refs.append((order, res, fin))
            rmtree_real(d)
        variants = plan.get("variants")
        explicit = variants is not None
        if not explicit:
            variants = []
            for i in range(self.cfg["variants"]):
                variants.append({"first": self.rng.choice("AB"), "ticks": self.rng.choice([0, 0, 1, 2, 3, 5, 8, 13, 21]), "split_body": self.rng.random() < 0.4,
                                 "ticks2": self.rng.choice([0, 1, 3, 8]), "sched_seed": self.rng.getrandbits(32), "trace": None,
                                 "p": self.rng.choice([0.05, 0.2, 0.5]), "burst_at": self.rng.choice([None, None] + list(range(1, 60))),
                                 # a git commit is ~330 fs events (most of them listdirs between the ref update
                                 # and the index write), so the parking point is drawn over that whole range
                                 "worker_burst_at": self.rng.choice([None, None, None] + list(range(1, 60)) + list(range(60, 400, 6)))})
        for var in variants:
            self.one(plan, var, pre_copy, etags, token, refs)
        seen, uniq = set(), []
        for v in self.violations:
            k = repr(sorted(v["sig"].items()))
            if k not in seen:
                seen.add(k)
                uniq.append(v)
        return {"violations": uniq[:4], "engine": "conc", "cfg": self.cfg, "plan": plan, "stats": self.stats, "signatures": sorted(self.signatures), "samples": self.samples,
                "digest": hashlib.sha256(repr((sorted(self.stats.items()), sorted(self.signatures))).encode()).hexdigest(),
                "world": {"virtual_s": 0.0, "nreq": self.stats.get("requests", 0)}, "fs": {"bypass": len(FS.bypass), "bypass_sample": FS.bypass[:3]}}

    PER_RESOURCE = ("propfind0", "propfind1", "multiget", "multiget_partial")

    def per_resource_match(self, plan, res, fin, refs):
        """A read that spans several resources (or several properties) is not
        required to be a snapshot: each (resource, property) it reports must
        be the value of A;B or of B;A, and the write's answer plus the final
        state must be those of one order."""
        readers = [k for k in "AB" if plan[k]["kind"] in self.PER_RESOURCE]
        if not readers:
            return []
        out = []
        for (o, r, f) in refs:
            if f != fin:
                continue
            if any(r[k] != res[k] for k in "AB" if k not in readers):
                continue
            ok = True
            for k in readers:
                got = res[k]
                if not (isinstance(got, tuple) and len(got) == 3 and got[0] == 207):
                    ok = got in [rr[k] for (_, rr, _) in refs]
                    continue
                allowed = set()
                for (_, rr, _) in refs:
                    ref = rr[k]
                    if isinstance(ref, tuple) and len(ref) == 3 and ref[0] == 207:
                        for (href, st, props) in ref[1]:
                            allowed.add((href, st))
                            for pr in props:
                                allowed.add((href, pr))
                for (href, st, props) in got[1]:
                    if (href, st) not in allowed or any((href, pr) not in allowed for pr in props):
                        ok = False
            if ok:
                out.append(o + "(per-resource)")
        return out

    def one(self, plan, var, pre_copy, etags, token, refs):
        d = os.path.join(self.arena.path, "conc")
        rmtree_real(d)
        shutil.copytree(pre_copy, d, symlinks=True)
        w = self.fresh_world(d)
        FS.reset()
        w.boot()
        srv = w.srv
        loop = srv.loop
        baton = None
        if self.cfg["mode"] == "threads":
            baton = BatonExecutor(random.Random(var["sched_seed"]), p_switch=var.get("p", 0.35), replay=var.get("trace"), burst_at=var.get("burst_at") if not var.get("worker_burst_at") else None,
                                  worker_burst_at=var.get("worker_burst_at"))
            loop.baton = baton
            FS.hook = baton.fs_yield
        first, second = var["first"], ("B" if var["first"] == "A" else "A")
        reqs = {k: self.build(w, plan[k], etags, token) for k in "AB"}
        out = {}

        async def drive():
            conns = {}
            m1, t1, h1, b1 = reqs[first]
            head1, body1 = srv.raw_request(m1, t1, h1, b1)
            p1, tr1 = srv.open_conn(m1)
            conns[first] = (p1, tr1)
            if var["split_body"] and body1:
                p1.data_received(head1)
            else:
                p1.data_received(head1 + body1)
            for _ in range(var["ticks"]):
                await asyncio.sleep(0)
            m2, t2, h2, b2 = reqs[second]
            head2, body2 = srv.raw_request(m2, t2, h2, b2)
            p2, tr2 = srv.open_conn(m2)
            conns[second] = (p2, tr2)
            p2.data_received(head2 + body2)
            for _ in range(var["ticks2"]):
                await asyncio.sleep(0)
            if var["split_body"] and body1:
                p1.data_received(body1)
            for key, (p, tr) in conns.items():
                try:
                    out[key] = await asyncio.wait_for(asyncio.shield(tr.done), 600)
                except asyncio.TimeoutError:
                    out[key] = None
            for key, (p, tr) in conns.items():
                p.connection_lost(None)
            for _ in range(3):
                await asyncio.sleep(0)

        try:
            loop.run_until_complete(drive())
        finally:
            if baton is not None:
                baton.drain()
                loop.baton = None
                FS.hook = None
        self.count("requests", 2)
        self.count("variants")
        res = {k: self.summarize(reqs[k][0], out.get(k)) for k in "AB"}
        fin = self.state_of(w)
        w.shutdown()
        if baton is not None:
            self.count("fault.preemption", baton.switches)
            if baton.switches:
                self.signatures.add(hashlib.sha1(repr((plan["A"]["kind"], plan["B"]["kind"], baton.trace)).encode()).hexdigest()[:16])
        else:
            self.signatures.add(hashlib.sha1(repr((plan["A"]["kind"], plan["B"]["kind"], var["first"], var["ticks"], var["split_body"], var["ticks2"])).encode()).hexdigest()[:16])
        if any((out.get(k) is not None and out[k].status == 423) for k in "AB"):
            # refused as locked: an outcome no sequential execution has, and a legitimate one (the
            # refused request must have no effect - E-SCHED's business)
            self.count("locked_refusals")
            return
        match = [o for (o, r, f) in refs if r == res and f == fin]
        if not match:
            match = self.per_resource_match(plan, res, fin, refs)
        if len(self.samples) < 1:
            self.samples.append({"mode": self.cfg["mode"], "A": {k: (v[:40] if isinstance(v, str) else v) for k, v in plan["A"].items()}, "B": {k: (v[:40] if isinstance(v, str) else v) for k, v in plan["B"].items()},
                                 "variant": {k: v for k, v in var.items() if k != "trace"}, "equals_sequential_order": match})
        if match:
            return
        # which part differs from both orders?
        parts = []
        for (o, r, f) in refs:
            diff = [k for k in "AB" if r[k] != res[k]]
            parts.append("%s: responses differ for %s%s" % (o, diff or "none", "" if f == fin else ", final state differs"))
        rec = dict(var)
        if baton is not None:
            rec["trace"] = list(baton.trace)
        kinds = (plan["A"]["kind"], plan["B"]["kind"])
        oracle = "%s.overlapping-requests-not-equivalent-to-sequential" % self.prop
        lost_race_500 = any(res[k][0] == 500 and plan[k]["kind"] in ("put", "delete") for k in "AB")
        pre_names = {m["name"] for m in plan["pre"]}
        # does one of the two change or delete an *existing* member?  Those go to the store in a worker
        # thread, where the store checks the etag before it takes the lock (recorded finding, C05);
        # creating PUTs run on the event loop and have no such window.
        touches_existing = any(plan[k]["kind"] in ("put", "delete") and plan[k].get("name") in pre_names for k in "AB")
        self.violations.append({"prop": self.prop, "oracle": oracle, "sig": {"oracle": oracle, "kinds": "%s+%s" % tuple(sorted(kinds)), "mode": self.cfg["mode"], "write_answered_500": lost_race_500,
                                                                               "touches_existing_member": touches_existing}, "step": None, "variant": rec,
                                "detail": ("A=%s B=%s first=%s ticks=%s split_body=%s: statuses A=%s B=%s; %s" % (
                                    {k: v for k, v in plan["A"].items() if k != "body"}, {k: v for k, v in plan["B"].items() if k != "body"}, var["first"], var["ticks"], var["split_body"],
                                    res["A"][0], res["B"][0], " | ".join(parts)))[:900]})
