"""E-HIST: sequential request histories through a front end (DESIGN.md 3, 4).

One run = one deployment configuration + one operation list.  Operations are
generated against the model's current state during the first execution and
recorded in concrete form (validators stay symbolic); a replay executes the
recorded list with no PRNG involved.
"""

import hashlib
import os
import json
import random
import urllib.parse
from xml.etree import ElementTree as ET

from .. import dav, gen, icalparse
from ..observe import Obs, observe_collection, rel_of, sha, SETTABLE
from ..rng import H
from ..simclock import CLOCK
from ..simfs import FS
from ..world import Arena, World, preseed_collection

OK_STATUS = (200, 201, 204, 207)

KIND_RT = {
    "calendar": {dav.RT_COLLECTION, dav.RT_CALENDAR},
    "addressbook": {dav.RT_COLLECTION, dav.RT_ADDRESSBOOK},
    "plain": {dav.RT_COLLECTION},
    "inbox": {dav.RT_COLLECTION, dav.RT_INBOX},
    "subscription": {dav.RT_COLLECTION, dav.RT_SUBSCRIBED},
}
STORE_KIND = {"calendar": "calendar", "addressbook": "addressbook", "plain": "other", "inbox": "schedule-inbox", "subscription": "subscription"}

PROPS_FOR_KIND = {
    "calendar": [dav.P_DISPLAYNAME, dav.P_COMMENT, dav.P_CAL_COLOR, dav.P_CAL_ORDER, dav.P_CAL_DESC],
    "addressbook": [dav.P_DISPLAYNAME, dav.P_COMMENT, dav.P_AB_DESC, dav.P_AB_COLOR],
    "plain": [dav.P_DISPLAYNAME, dav.P_COMMENT],
    "inbox": [dav.P_DISPLAYNAME, dav.P_COMMENT],
    "subscription": [dav.P_DISPLAYNAME],
}


def b2s(b):
    return b.decode("latin-1")


def s2b(s):
    return s.encode("latin-1")


class Violation(dict):
    pass


def viol(prop, oracle, step, detail, **sig):
    s = {"oracle": oracle}
    s.update(sig)
    return Violation(prop=prop, oracle=oracle, sig=s, step=step, detail=str(detail)[:600])


class MMember:
    __slots__ = ("upload", "req_ctype", "served", "etag", "uid")

    def __init__(self, upload, req_ctype):
        self.upload = upload
        self.req_ctype = req_ctype
        self.served = None
        self.etag = None
        self.uid = None


class MColl:
    def __init__(self, path, kind, backend):
        self.path = path  # with trailing slash
        self.kind = kind
        self.backend = backend  # tree | bare | gitcfg | dir
        self.members = {}
        self.props = {}  # tag -> text (successfully set, pinned)
        self.removed = {}  # tag -> old text (successfully removed)

    @property
    def name(self):
        return self.path.rstrip("/").rsplit("/", 1)[-1]


class Model:
    def __init__(self):
        self.colls = {}
        self.etag_hist = {}  # relpath -> [etag...] (oldest first), all versions ever seen
        self.tomb = []  # relpaths that must answer 404
        self.content_by_etag = {}  # (relpath) -> {etag: sha}

    def children(self, path):
        out = []
        for p in self.colls:
            if p != path and p.startswith(path) and "/" not in p[len(path):].rstrip("/"):
                out.append(p[len(path):].rstrip("/"))
        return out

    def parent_of(self, path):
        p = path.rstrip("/").rsplit("/", 1)[0] + "/"
        return p

    def drop_tree(self, path):
        for p in [p for p in self.colls if p.startswith(path)]:
            c = self.colls.pop(p)
            for n in c.members:
                self.tomb.append(p + n)
        self.tomb.append(path.rstrip("/"))

    def note_etag(self, relpath, etag):
        if etag is None:
            return
        h = self.etag_hist.setdefault(relpath, [])
        if not h or h[-1] != etag:
            h.append(etag)


DEFAULT_WEIGHTS = {
    "put_new": 10, "put_over": 8, "put_cond": 3, "post": 3, "delete": 5, "delete_cond": 2,
    "delete_coll": 0.7, "mkcol": 1.5, "mkcalendar": 1.5, "proppatch": 3, "get": 1.5, "get_cond": 1,
    "propfind": 1.5, "multiget": 1.5, "query": 1, "sync": 1, "put_invalid": 2, "put_badpath": 1,
    "restart": 1.2, "evict": 1.5, "clock": 1, "reupload": 1, "put_same": 1.5, "put_revert": 1,
    "delete_missing": 1, "put_uidclash": 1.5, "put_cut": 0.8,
}

PROP_WEIGHTS = {
    "C01": {"put_revert": 3},
    "C02": {"partial": 3, "get": 3, "propfind": 3, "multiget": 3, "query": 2, "sync": 2, "proppatch": 4, "put_over": 12},
    "C03": {"put_cond": 14, "delete_cond": 8, "get_cond": 6, "put_over": 10, "post": 1, "mkcol": 1, "mkcalendar": 1, "delete_coll": 2, "sync": 1.5},
    "C06": {"put_recreate": 6, "put_uidclash": 10, "put_over": 10, "put_new": 10, "post": 7, "delete": 7, "restart": 2, "evict": 3, "mkcol": 0.3, "proppatch": 0.5},
    "C07": {"sync": 16, "put_copy": 4, "put_same": 3, "put_revert": 4, "delete": 12, "put_new": 10, "put_over": 10, "mkcol": 0.3, "put_invalid": 0.5,
            "propfind": 0.3, "get": 0.3, "multiget": 0.3, "query": 0.3, "proppatch": 1, "post": 2},
    "C08": {"put_same": 3, "put_revert": 5, "delete": 8, "put_invalid": 3, "put_cond": 4, "get": 2, "propfind": 2},
    "C09": {"put_mismatch": 2, "put_same": 4, "put_revert": 3, "proppatch": 6, "delete": 6, "put_invalid": 2, "put_cond": 3, "clock": 3},
    "C14": {"partial": 4, "put_invalid": 10, "reupload": 10, "put_new": 10, "put_over": 6, "restart": 2},
    "C15": {"proppatch": 20, "mkcol": 4, "mkcalendar": 4, "restart": 4, "evict": 3, "put_new": 3, "put_over": 1, "delete": 1, "post": 0.5},
    "C16": {"put_new": 12, "post": 5, "propfind": 8, "mkcol": 3, "mkcalendar": 3, "delete": 3, "proppatch": 3, "put_invalid": 2},
    "C17": {"partial": 5, "multiget": 16, "put_new": 10, "put_over": 6, "delete": 7, "mkcol": 1},
}


def make_config(prop, seed, tier):
    r = random.Random(H("config", seed))
    cfg = {
        "seed": seed,
        "frontend": r.choice(["aiohttp", "wsgi"]),
        "prefix": r.choice(["/", "/", "/dav/", "/a/b/"]),
        "principal": "/user/",
        "autocreate": "defaults",
        "strict": r.random() < 0.8,
        "index_threshold": r.choice([None, 0, 1, 2, 50]),
        "paranoid": r.random() < 0.2,
        "listing": True,
        "names": r.choice(["simple", "mixed", "mixed", "urlsig", "unicode"]) if prop in ("C16", "C01", "C17") else r.choice(["simple", "simple", "mixed"]),
        "preseed": [],
        "faults": r.random() < 0.75,  # restarts / evictions / clock / chunking enabled
        "steps": r.randint(8, 25) if tier == "quick" else r.randint(10, 60),
        # separate configuration (DESIGN.md 2.3(4)): injected ENOSPC/EIO inside write requests
        "io_faults": prop in ("C01", "C02", "C07", "C08", "C15", "C16", "C17") and r.random() < 0.3,
        # file mtimes follow the simulated clock, which only moves on clock ops: every
        # write between two of them carries the same timestamp
        "sim_mtime": r.random() < 0.5,
    }
    if r.random() < 0.6:
        cfg["preseed"].append({"path": "/user/calendars/bare/", "backend": "bare", "kind": "calendar"})
    if r.random() < 0.5:
        cfg["preseed"].append({"path": "/user/calendars/gitcfg/", "backend": "gitcfg", "kind": "calendar"})
    if r.random() < 0.3:
        cfg["preseed"].append({"path": "/user/contacts/barebook/", "backend": "bare", "kind": "addressbook"})
    if prop == "C15" and r.random() < 0.5:
        cfg["preseed"].append({"path": "/user/contacts/cfgbook/", "backend": "gitcfg", "kind": "addressbook"})
    if prop in ("C01", "C08", "C07") and r.random() < 0.25:
        # two `git init --bare` directories without any commit yet
        cfg["preseed"].append({"path": "/user/calendars/e0/", "backend": "bare-empty", "kind": "plain"})
        cfg["preseed"].append({"path": "/user/calendars/e1/", "backend": "bare-empty", "kind": "plain"})
    return cfg


class HistRun:
    def __init__(self, prop, cfg, ops=None, tag="run", checks=None, io_faults=False):
        self.prop = prop
        self.cfg = cfg
        self.replay_ops = ops
        self.ops = []
        self.tag = tag
        self.violations = []
        self.model = Model()
        self.obs = {}  # path -> Obs (latest)
        self.stats = {}
        self.rng = random.Random(H("workload", cfg["seed"]))
        self.frng = random.Random(H("faults", cfg["seed"]))
        self.weights = dict(DEFAULT_WEIGHTS)
        self.weights.update(PROP_WEIGHTS.get(prop, {}))
        if not cfg.get("faults", True):
            for k in ("restart", "evict", "clock"):
                self.weights[k] = 0
        self.digest = hashlib.sha256()
        self.digest_hi = hashlib.sha256()
        self.step_no = -1
        self.names_mode = cfg.get("names", "simple")
        self.uid_pool = ["uid-1", "uid-2", "uid-3", "UID-1", "uid 2", "u,3;x", "uid-1 ", " uid-2"]
        self.fresh = 0
        self.post_cal = set()  # members created by POST of text/calendar (calendar objects under any name)
        self.tokens = {}  # coll path -> list of dict(step, token, snap)
        self.tag_states = {}  # coll path -> {tag: member_state}
        self.etag_bodies = {}  # relpath -> {etag: sha}
        self.sha_etags = {}  # relpath -> {sha: etag}
        self.full_audit = True
        self.nontrivial = {}
        self.states = set()
        self.transitions = set()
        self.resyncs = 0
        self.io_faults = io_faults
        self.git_heads = {}  # coll path -> list of commit ids (observer)
        self.last_fault = None
        self.world = None
        self.io_armed = 0
        self.body_hist = {}

    # ------------------------------------------------------------------ util
    def count(self, k, n=1):
        self.stats[k] = self.stats.get(k, 0) + n

    def v(self, prop, oracle, detail, **sig):
        if prop != self.prop:
            self.count("other_property_signal." + oracle)
            return
        sig.setdefault("frontend", self.cfg.get("frontend"))
        self.violations.append(viol(prop, oracle, self.step_no, detail, **sig))

    def log(self, *parts):
        import os

        d = os.environ.get("XSIM_DUMP")
        if d:
            with open(os.path.join(d, self.tag + ".log"), "a") as f:
                f.write("|".join(str(p) for p in parts) + "\n")
        self.digest.update(("|".join(str(p) for p in parts) + "\n").encode("utf-8", "replace"))
        if parts and parts[0] == "req":
            # fs event counters and the order of elements inside multistatus
            # bodies depend on hash order inside dulwich / ElementTree
            parts = parts[:-2] if (parts[3] == 207 or (parts[3] or 0) >= 500) else parts[:-1]
        self.digest_hi.update(("|".join(str(p) for p in parts) + "\n").encode("utf-8", "replace"))

    # ------------------------------------------------------------------ boot
    def boot(self):
        self.arena = Arena(self.tag)
        CLOCK.reset()
        FS.reset()
        w = self.world = World(self.arena, self.cfg)
        w.on_req = self.log
        w.boot()
        # defaults created by start-up
        m = self.model
        m.colls["/user/"] = MColl("/user/", "principal", "dir")
        m.colls["/user/calendars/"] = MColl("/user/calendars/", "plain", "tree")
        m.colls["/user/contacts/"] = MColl("/user/contacts/", "plain", "tree")
        m.colls["/user/calendars/calendar/"] = MColl("/user/calendars/calendar/", "calendar", "tree")
        m.colls["/user/contacts/addressbook/"] = MColl("/user/contacts/addressbook/", "addressbook", "tree")
        m.colls["/user/inbox/"] = MColl("/user/inbox/", "inbox", "tree")
        if self.cfg.get("preseed"):
            # created behind the server's back, then a restart picks them up
            FS.active = False
            w.srv.stop()
            for ps in self.cfg["preseed"]:
                preseed_collection(self.arena.root, ps["path"], ps["backend"], STORE_KIND[ps["kind"]])
                m.colls[ps["path"]] = MColl(ps["path"], ps["kind"], "bare" if ps["backend"] == "bare-empty" else ps["backend"])
            FS.active = True
            w.srv.start()
        self.audit(initial=True)
        # the initial state of every collection is a state it has issued a token for
        from . import hist_oracles

        hist_oracles.record_tokens_and_tags(self, self.obs)

    def close(self):
        try:
            if self.world is not None:
                self.world.shutdown()
        finally:
            FS.active = False
            self.arena.destroy()

    # ----------------------------------------------------------------- audit
    def audit(self, initial=False, touched=None):
        """Observe every known collection.  Returns {path: Obs}."""
        w = self.world
        new = {}
        # The audit itself only reads.  Ask for the sync-token alone before and after it, so that a
        # read that writes (a getter that "repairs" what it finds) cannot hide inside the audit.
        bracket = self.prop in ("C01", "C08") and not initial
        pre = {path: self.token_only(path) for path in sorted(self.model.colls)} if bracket else {}
        for path in sorted(self.model.colls):
            o = observe_collection(w, path, get_bodies=True)
            new[path] = o
        if bracket:
            for path in sorted(self.model.colls):
                a, b = pre.get(path), self.token_only(path)
                if a is not None and b is not None and a != b:
                    c = self.model.colls[path]
                    self.v("C08", "C08.tag-changed-by-audit-reads", "%s: sync-token %s -> %s across PROPFIND/GET requests only" % (path, a, b), backend=c.backend)
                    self.v("C01", "C01.read-changed-state", "PROPFIND/GET of %s and its members changed its sync-token %s -> %s" % (path, a, b), op="audit")
        prev = self.obs
        self.obs = new
        self.check_model(prev, new, initial)
        return new

    _TOKEN_BODY = dav.propfind_body([dav.P_SYNCTOKEN])

    def token_only(self, path):
        r = self.world.req("PROPFIND", path, [("Depth", "0"), dav.XML_CT], self._TOKEN_BODY)
        if r is None or r.status != 207:
            return None
        try:
            resps, _ = dav.parse_multistatus(r.body)
        except (ET.ParseError, ValueError):
            return None
        for ms in resps:
            t = ms.text(dav.P_SYNCTOKEN)
            if t is not None:
                return t
        return None

    def check_model(self, prev, new, initial):
        """C01 core: observation == acknowledgement-following model; for
        other properties a mismatch resynchronises the model instead."""
        m = self.model
        strict = self.prop == "C01"
        for path, c in sorted(m.colls.items()):
            o = new[path]
            if not o.exists:
                self.v("C01", "C01.collection-missing", "%s PROPFIND -> %s" % (path, o.status), kind=c.kind, backend=c.backend)
                if not strict:
                    self.resyncs += 1
                continue
            if c.kind in KIND_RT and not KIND_RT[c.kind] <= set(o.rtypes):
                self.v("C01", "C01.collection-kind", "%s has %s" % (path, sorted(o.rtypes)), kind=c.kind, backend=c.backend)
            for p in o.problems:
                self.v("C16", "C16.listing-problem", "%s: %s" % (path, p))
            if o.dups:
                self.v("C01", "C01.listing-duplicate", "%s lists %s twice" % (path, o.dups), backend=c.backend)
                self.v("C16", "C16.listing-duplicate", "%s lists %s twice" % (path, o.dups), backend=c.backend)
            want_subs = set(m.children(path))
            if c.kind != "principal":
                extra = set(o.subs) - want_subs
                missing = want_subs - set(o.subs)
                if extra:
                    self.v("C01", "C01.listing-extra-collection", "%s lists sub-collections %s" % (path, sorted(extra)), backend=c.backend)
                    self.v("C16", "C16.listing-extra", "%s lists %s" % (path, sorted(extra)))
                if missing:
                    self.v("C01", "C01.listing-missing-collection", "%s does not list %s" % (path, sorted(missing)), backend=c.backend)
                    self.v("C16", "C16.listing-missing", "%s does not list %s" % (path, sorted(missing)))
            if o.bad_hrefs:
                self.v("C01", "C01.listing-foreign-href", "%s lists %s" % (path, o.bad_hrefs[:3]), backend=c.backend)
                self.v("C16", "C16.listing-foreign-href", "%s lists %s" % (path, o.bad_hrefs[:3]))
            if c.kind == "principal":
                continue
            extra = set(o.members) - set(c.members)
            missing = set(c.members) - set(o.members)
            ad = getattr(self, "adopt", None)
            if ad is not None and ad[0] == path and len(extra) == 1:
                # member created by POST whose Location could not be followed
                c.members[next(iter(extra))] = MMember(ad[1], ad[2])
                extra = set()
                self.adopt = None
            if extra:
                self.v("C01", "C01.listing-extra", "%s lists %s (not live)" % (path, sorted(extra)), backend=c.backend)
                self.v("C16", "C16.listing-extra", "%s lists %s" % (path, sorted(extra)))
            if missing:
                self.v("C01", "C01.listing-missing", "%s does not list live %s" % (path, sorted(missing)), backend=c.backend)
                self.v("C16", "C16.listing-missing", "%s does not list %s" % (path, sorted(missing)))
            for name, mm in list(c.members.items()):
                om = o.members.get(name)
                if om is None:
                    if not strict:
                        del c.members[name]
                        self.resyncs += 1
                    continue
                if om.get("status") != 200:
                    self.v("C01", "C01.get-not-200", "GET %s%s -> %s" % (path, name, om.get("status")), backend=c.backend)
                    continue
                body = om["body"]
                if mm.served is None:
                    self.learn(c, name, mm, body)
                elif body != mm.served:
                    self.v("C01", "C01.get-changed", "GET %s%s: bytes changed without a successful write to it (%s)" % (
                        path, name, icalparse.diff(mm.served, body) if name.endswith(".ics") else "len %d->%d" % (len(mm.served), len(body))),
                        backend=c.backend, cause=self.last_op_kind())
                    if not strict:
                        mm.served = body
                        self.resyncs += 1
                mm.etag = om.get("etag")
                m.note_etag(path + name, mm.etag)
            if not strict:
                for name in extra:
                    om = o.members[name]
                    if om.get("status") == 200:
                        mm = MMember(om["body"], om.get("ctype"))
                        mm.served = om["body"]
                        mm.etag = om.get("etag")
                        mm.uid = icalparse.first_uid(om["body"]) if name.endswith(".ics") else None
                        c.members[name] = mm
                        self.resyncs += 1
        # tombstones: sampled deleted / never-created paths must be 404
        tomb = m.tomb[-3:]
        for rel in tomb:
            if any(rel == p.rstrip("/") or rel.startswith(p) and rel[len(p):] in c.members for p, c in m.colls.items()):
                continue
            if rel + "/" in m.colls:
                continue
            g = self.world.req("GET", rel)
            if g is not None and g.status != 404:
                self.v("C01", "C01.deleted-not-404", "GET %s -> %s after delete" % (rel, g.status))

    def learn(self, c, name, mm, body):
        """First read after a successful write: pin the served bytes and
        compare them with the upload."""
        mm.served = body
        bh = self.body_hist.setdefault(c.path + name, [])
        if not bh or bh[-1] != body:
            bh.append(body)
        calish = name.endswith(".ics") or (mm.req_ctype or "").split(";")[0].strip() == "text/calendar"
        if body == mm.upload:
            pass
        elif calish and icalparse.semantically_equal(mm.upload, body):
            self.count("ics_reserialised")
        else:
            self.v("C01", "C01.served-differs-from-upload", "%s%s: %s" % (
                c.path, name, icalparse.diff(mm.upload, body) if calish else "bytes differ (len %d vs %d)" % (len(mm.upload), len(body))),
                backend=c.backend, ext=name.rsplit(".", 1)[-1] if "." in name else "")
        mm.uid = icalparse.first_uid(body) if (name.endswith(".ics") or c.path + name in self.post_cal) else None

    def last_op_kind(self):
        return self.ops[-1]["op"] if self.ops else "boot"

    # ------------------------------------------------------------- generation
    def store_colls(self, kinds=None):
        return [c for p, c in sorted(self.model.colls.items()) if c.kind != "principal" and (kinds is None or c.kind in kinds)]

    def pick_coll(self, kinds=None):
        cs = self.store_colls(kinds)
        if not cs:
            cs = self.store_colls()
        # calendars are where most properties live
        w = [4 if c.kind == "calendar" else 2 if c.kind == "addressbook" else 1 for c in cs]
        if self.prop == "C15":
            # both metadata back ends get their share
            w = [x * (4 if c.backend in ("gitcfg", "bare") else 1) for x, c in zip(w, cs)]
        return self.rng.choices(cs, w)[0]

    def pick_member(self, kinds=None):
        cands = [(c, n) for c in self.store_colls(kinds) for n in sorted(c.members)]
        if not cands:
            return None
        return self.rng.choice(cands)

    def new_name(self, c):
        r = self.rng
        ext = {"calendar": ".ics", "addressbook": ".vcf", "inbox": ".ics", "subscription": ".ics"}.get(c.kind)
        if ext is None or r.random() < 0.08:
            ext = r.choice([".ics", ".vcf", ".txt", ".txt", ""])
        for _ in range(20):
            base = gen.member_base(r, self.names_mode)
            if self.prop in ("C07", "C08") and r.random() < 0.08:
                base = r.choice([".dot", ".hid.den"])
            if r.random() < 0.3:
                base += str(r.randint(0, 9))
            n = base + ext
            if n not in c.members:
                return n
        self.fresh += 1
        return "f%d%s" % (self.fresh, ext)

    def body_for(self, name, uid=None, ctype_hint=None):
        r = self.rng
        if name.endswith(".ics"):
            if uid is None:
                self.fresh += 1
                uid = "%s-%d" % (name[:-4], self.fresh)
            if uid == "<none>":
                uid = None
            return gen.ics(r, uid, lineend=r.choice(["\r\n", "\r\n", "\n"])), "text/calendar"
        if name.endswith(".vcf"):
            self.fresh += 1
            return gen.vcf(r, uid="card-%d" % self.fresh), "text/vcard"
        return gen.opaque(r), r.choice(["text/plain", "application/octet-stream"])

    def cond_refs(self, relpath, want=None, if_match=False):
        """A symbolic validator list for If-Match / If-None-Match."""
        r = self.rng
        hist = self.model.etag_hist.get(relpath, [])
        choices = ["cur", "cur", "stale", "other", "star", "lit_unquoted", "garbage", "list_with_cur", "list_without", "empty"]
        if if_match:
            # If-Match compares strongly (RFC 7232 3.1): the current tag marked weak does not match
            choices = choices + ["weak_cur", "list_with_weak_cur"]
        k = want or r.choice(choices)
        if k == "weak_cur":
            return [{"weak": relpath}]
        if k == "list_with_weak_cur":
            return [{"lit": '"aaaa"'}, {"weak": relpath}]
        if k == "cur":
            return [{"cur": relpath}]
        if k == "stale":
            return [{"old": relpath, "k": r.randint(1, max(1, len(hist)))}]
        if k == "other":
            o = self.pick_member()
            return [{"cur": (o[0].path + o[1]) if o else relpath + "x"}]
        if k == "star":
            return [{"lit": "*"}]
        if k == "lit_unquoted":
            return [{"cur_unquoted": relpath}]
        if k == "garbage":
            return [{"lit": r.choice(['"zzz"', "nonsense", '"', '""', "W", '"0000000000000000000000000000000000000000"'])}]
        if k == "list_with_cur":
            return [{"lit": '"aaaa"'}, {"cur": relpath}, {"old": relpath, "k": 1}]
        if k == "list_without":
            return [{"lit": '"aaaa"'}, {"old": relpath, "k": 1}]
        return [{"lit": ""}]

    def gen_op(self):
        r = self.rng
        w = self.weights
        q = getattr(self, "queue", None)
        if q:
            op = q.pop(0)
            op["salt"] = r.getrandbits(32)
            return op
        if self.prop in ("C14", "C17", "C02") and r.random() < 0.1:
            # a report that renders a member in a non-trivial way (partial retrieval, expansion of
            # recurrences), immediately followed by a re-upload / re-read of that member
            cands = [(c, n) for c in self.store_colls(("calendar",)) for n, mm in sorted(c.members.items()) if mm.served and n.endswith(".ics")]
            rec = [(c, n) for (c, n) in cands if b"RRULE" in c.members[n].served]
            if cands:
                c, n = r.choice(rec or cands)
                follow = {"op": "reupload", "path": c.path + n} if self.prop == "C14" else {"op": "report", "report": "multiget", "coll": c.path, "hrefs": [{"rel": c.path + n}]}
                self.queue = [follow]
                return {"op": "report", "report": "partial", "coll": c.path, "kind": r.choice(["multiget", "query"]), "mode": "expand" if (rec and r.random() < 0.7) else r.choice(["props", "expand"]),
                        "names": [n], "salt": r.getrandbits(32)}
        if self.prop == "C15" and r.random() < 0.08:
            # everything that is set on a collection is removed again, one request per property
            # (the last removal leaves nothing to record)
            cs = [c for c in self.store_colls() if c.props and c.kind in PROPS_FOR_KIND]
            plain = [c for c in cs if c.kind == "plain"]
            if cs:
                c = r.choice(plain or cs)
                tags = sorted(c.props)
                r.shuffle(tags)
                ops = [{"op": "proppatch", "path": c.path, "instrs": [["remove", t, None]]} for t in tags]
                self.queue = ops[1:]
                return dict(ops[0], salt=r.getrandbits(32))
            plain = [c for c in self.store_colls(("plain",)) if c.kind == "plain"]
            if plain:
                c = r.choice(plain)
                return {"op": "proppatch", "path": c.path, "instrs": [["set", dav.P_DISPLAYNAME, self.gen_prop_value(dav.P_DISPLAYNAME, c.backend)]], "salt": r.getrandbits(32)}
        if self.prop == "C14" and r.random() < 0.07:
            # bytes the repository already knows as a plain file are not therefore a calendar object
            cands = [(c, n) for c in self.store_colls(("calendar",)) for n, mm in sorted(c.members.items()) if mm.served and n.endswith(".ics")]
            if cands:
                c, n = r.choice(cands)
                self.fresh += 1
                junk = ("meeting notes %d\nnot a calendar\n" % self.fresh).encode()
                self.queue = [{"op": "put", "coll": c.path, "name": n, "body": b2s(junk), "ctype": "text/calendar", "invalid": "text"}]
                return {"op": "put", "coll": c.path, "name": "notes%d.txt" % self.fresh, "body": b2s(junk), "ctype": "text/plain", "salt": r.getrandbits(32)}
        if self.prop == "C07" and r.random() < 0.08:
            # a member, a token, then the same bytes under the adjacent name, then a sync from that token
            c = self.pick_coll(("addressbook", "plain", "calendar"))
            self.fresh += 1
            if c.kind == "addressbook":
                ext, body, ct = ".vcf", gen.vcf(r, uid=None), "text/vcard"
            else:
                ext, body, ct = ".txt", gen.opaque(r) or b"x", "text/plain"
            n1, n2 = "tw%d%s" % (self.fresh, ext), "tw%d0%s" % (self.fresh, ext)
            self.queue = [{"op": "report", "report": "sync", "coll": c.path, "token": {"record": True}},
                          {"op": "put", "coll": c.path, "name": n2, "body": b2s(body), "ctype": ct},
                          {"op": "report", "report": "sync", "coll": c.path, "token": {"issued": 10 ** 6}}]
            return {"op": "put", "coll": c.path, "name": n1, "body": b2s(body), "ctype": ct, "salt": r.getrandbits(32)}
        if self.prop == "C06" and r.random() < 0.08:
            # an object created by POST (as clients send it: media type with parameters) holds its
            # UID like any other; a PUT of that UID under a new name must be refused
            c = self.pick_coll(("calendar",))
            if c.kind == "calendar":
                self.fresh += 1
                uid = "posted-%d" % self.fresh
                self.queue = [{"op": "put", "coll": c.path, "name": "pc%d.ics" % self.fresh, "body": b2s(gen.ics(r, uid, rich=0)), "ctype": "text/calendar"}]
                return {"op": "post", "coll": c.path, "body": b2s(gen.ics(r, uid, rich=0)), "ctype": "text/calendar" + r.choice(["; charset=utf-8", ";charset=UTF-8", "; component=VEVENT", ""]), "salt": r.getrandbits(32)}
        if self.prop == "C06" and r.random() < 0.08:
            # a member is deleted and comes back byte-identical; its UID must be taken again
            cands = [(c, n) for c in self.store_colls(("calendar",)) for n, mm in sorted(c.members.items()) if mm.uid and mm.served and n.endswith(".ics")]
            if cands:
                c, n = r.choice(cands)
                mm = c.members[n]
                self.fresh += 1
                other = "back%d.ics" % self.fresh
                self.queue = [{"op": "delete", "path": c.path + n},
                              {"op": "put", "coll": c.path, "name": n, "body": b2s(mm.served), "ctype": "text/calendar"},
                              {"op": "put", "coll": c.path, "name": other, "body": b2s(gen.ics(r, mm.uid, rich=0)), "ctype": "text/calendar"}]
                body, ct = self.body_for("scan%d.ics" % self.fresh)
                return {"op": "put", "coll": c.path, "name": "scan%d.ics" % self.fresh, "body": b2s(body), "ctype": ct, "salt": r.getrandbits(32)}
        kinds = list(w)
        for _ in range(50):
            k = r.choices(kinds, [w[x] for x in kinds])[0]
            op = self.make_op(k)
            if op is not None:
                op["salt"] = r.getrandbits(32)
                if self.cfg.get("faults", True) and self.cfg.get("frontend") == "aiohttp" and op["op"] in ("put", "post", "proppatch", "report", "propfind", "mkcol", "mkcalendar") and self.frng.random() < 0.3:
                    n = self.frng.randint(1, 4)
                    op["chunks"] = [self.frng.randint(1, 200) for _ in range(n)]
                if self.cfg.get("io_faults") and self.prop == "C07" and op["op"] == "report" and op.get("report") == "sync" and "issued" in (op.get("token") or {}) and self.io_armed < 4 and self.frng.random() < 0.5:
                    # (the one read that matters there is the old tree named by the token)
                    op["fault_sweep"] = 60
                    self.io_armed += 1
                elif self.cfg.get("io_faults") and self.prop == "C17" and op["op"] == "report" and op.get("report") == "multiget" and self.io_armed < 4 and self.frng.random() < 0.5:
                    op["fault_sweep"] = 80
                    self.io_armed += 1
                elif self.cfg.get("io_faults") and op["op"] in ("get", "head", "propfind", "report") and self.io_armed < 6 and self.frng.random() < 0.12:
                    # the store cache is emptied just before the request (every step ends with an audit
                    # that warms it again), so the request opens its stores itself - under a read error
                    op["read_fault"] = {"after": self.frng.randint(1, 25), "errno": self.frng.choice(["EIO", "EMFILE"])}
                    op["cold"] = True
                    self.io_armed += 1
                elif self.cfg.get("io_faults") and op["op"] in ("get", "head", "propfind", "report") and self.io_armed < 3 and self.frng.random() < 0.15:
                    op["read_fault"] = {"after": self.frng.randint(1, 30), "errno": self.frng.choice(["EIO", "EMFILE"])}
                    self.io_armed += 1
                # (C15 pins values per acknowledged instruction: the known partial application of a
                # failing multi-instruction PROPPATCH is left to C01/C08, which name it)
                if self.cfg.get("io_faults") and op["op"] in ("put", "post", "delete", "proppatch", "reupload") and self.io_armed < (4 if self.prop == "C15" else 2) and self.frng.random() < 0.25 \
                        and not (self.prop == "C15" and op["op"] == "proppatch" and len(op.get("instrs", [])) > 1):
                    # (half of them early: the first mutations of a write are the lock and the file itself)
                    op["fault"] = {"after": self.frng.randint(1, 6) if self.frng.random() < 0.5 else self.frng.randint(1, 45), "errno": self.frng.choice(["ENOSPC", "ENOSPC", "EIO"])}
                    if self.prop == "C15" and op["op"] == "proppatch" and self.frng.random() < 0.5:
                        # the second and third mutation of a property write are the metadata file itself
                        op["fault"]["after"] = self.frng.choice([2, 3])
                    self.io_armed += 1
                return op
        return {"op": "get", "path": "/user/", "salt": 0}

    def make_op(self, k):
        r = self.rng
        m = self.model
        if k == "put_new":
            c = self.pick_coll()
            name = self.new_name(c)
            uid = None
            if name.endswith(".ics") and r.random() < 0.08:
                uid = "<none>"
            body, ct = self.body_for(name, uid)
            if r.random() < 0.1 and ct in ("text/calendar", "text/vcard"):
                ct += r.choice(["; charset=utf-8", ";charset=UTF-8", "; charset=\"utf-8\""])
            elif self.prop in ("C02", "C17") and name.endswith(".ics") and uid is None and r.random() < 0.12:
                # `curl -T x.ics`: no calendar media type, so the bytes are stored as they are (not
                # re-serialised); every view must still serve those bytes under that etag
                ct = r.choice(["application/octet-stream", "application/octet-stream", "text/plain"])
            return {"op": "put", "coll": c.path, "name": name, "body": b2s(body), "ctype": ct}
        if k == "put_copy":
            # the same bytes under a second, adjacent name (contacts without UID, plain files)
            cands = [(c, n) for c in self.store_colls() for n, mm in sorted(c.members.items())
                     if mm.served and not n.endswith(".ics") and (not n.endswith(".vcf") or icalparse.first_uid(mm.served) is None)]
            if not cands:
                c = self.pick_coll(("addressbook",))
                if c.kind != "addressbook":
                    return None
                name = self.new_name(c)
                if not name.endswith(".vcf"):
                    return None
                return {"op": "put", "coll": c.path, "name": name, "body": b2s(gen.vcf(r, uid=None)), "ctype": "text/vcard"}
            c, n = r.choice(cands)
            base, dot, ext = n.rpartition(".")
            twin = (base + "0." + ext) if dot else n + "0"
            if twin in c.members:
                return None
            return {"op": "put", "coll": c.path, "name": twin, "body": b2s(c.members[n].served), "ctype": c.members[n].req_ctype or "application/octet-stream"}
        if k == "put_mismatch":
            # a calendar-looking name uploaded as plain text: stored as an opaque file
            c = self.pick_coll(("calendar",))
            self.fresh += 1
            return {"op": "put", "coll": c.path, "name": "notes%d.ics" % self.fresh, "body": b2s(("just some notes %d\n" % self.fresh).encode()), "ctype": "text/plain"}
        if k == "put_uidclash":
            c = self.pick_coll(("calendar",))
            uid = r.choice(self.uid_pool)
            held = sorted({mm.uid for mm in c.members.values() if mm.uid})
            if held and r.random() < 0.4:
                uid = r.choice(held)
            if c.members and r.random() < 0.5:
                name = r.choice(sorted(c.members))
            else:
                name = self.new_name(c)
            if not name.endswith(".ics"):
                return None
            body, ct = self.body_for(name, uid)
            return {"op": "put", "coll": c.path, "name": name, "body": b2s(body), "ctype": ct}
        if k in ("put_over", "put_same", "put_revert", "put_cond"):
            pm = self.pick_member()
            if pm is None:
                return None
            c, name = pm
            mm = c.members[name]
            rel = c.path + name
            if k == "put_same" and mm.served is not None:
                body = mm.served if r.random() < 0.5 else mm.upload
                ct = mm.req_ctype or "application/octet-stream"
            elif k == "put_revert":
                bh = self.body_hist.get(rel, [])
                if len(bh) < 2:
                    return None
                body = r.choice(bh[:-1])
                ct = mm.req_ctype or "text/calendar"
            else:
                uid = mm.uid if (name.endswith(".ics") and r.random() < 0.8) else None
                body, ct = self.body_for(name, uid)
            op = {"op": "put", "coll": c.path, "name": name, "body": b2s(body), "ctype": ct}
            if k == "put_cond":
                which = r.random()
                cond = {}
                if which < 0.5:
                    cond["if_match"] = self.cond_refs(rel, if_match=True)
                elif which < 0.8:
                    cond["if_none_match"] = self.cond_refs(rel)
                else:
                    cond["if_match"] = self.cond_refs(rel, r.choice([None, "cur", "star"]))
                    cond["if_none_match"] = self.cond_refs(rel, r.choice([None, "cur", "star", "list_with_cur"]))
                op["cond"] = cond
            return op
        if k == "put_cond" or k == "put_cond_new":
            return None
        if k == "post":
            c = self.pick_coll()
            ext = {"calendar": ".ics", "addressbook": ".vcf"}.get(c.kind, r.choice([".ics", ".vcf", ".txt"]))
            uid = None
            ics_names = [n for n in sorted(c.members) if n.endswith(".ics")]
            if ext == ".ics" and ics_names and r.random() < 0.3:
                # a UID that happens to equal the base name of another member
                uid = r.choice(ics_names)[:-4]
            elif ext == ".ics" and r.random() < 0.3:
                uid = r.choice(self.uid_pool)
            body, ct = self.body_for("x" + ext, uid)
            if r.random() < 0.35:
                # media-type parameters, as real clients send them
                ct += r.choice(["; charset=utf-8", ";charset=UTF-8", "; component=VEVENT", "; charset=\"utf-8\""])
            return {"op": "post", "coll": c.path, "body": b2s(body), "ctype": ct}
        if k == "put_recreate":
            gone = [t for t in m.tomb if t in self.body_hist and self.find_member(t) and not self.find_live(t)]
            if not gone:
                return None
            rel = r.choice(sorted(set(gone)))
            c, name = self.find_member(rel)
            return {"op": "put", "coll": c.path, "name": name, "body": b2s(self.body_hist[rel][-1]), "ctype": "text/calendar" if name.endswith(".ics") else "text/vcard" if name.endswith(".vcf") else "application/octet-stream"}
        if k in ("delete", "delete_cond"):
            pm = self.pick_member()
            if pm is None:
                return None
            c, name = pm
            op = {"op": "delete", "path": c.path + name}
            if k == "delete_cond":
                op["cond"] = {"if_match": self.cond_refs(c.path + name, if_match=True)}
            return op
        if k == "delete_missing":
            c = self.pick_coll()
            name = self.new_name(c)
            op = {"op": r.choice(["delete", "get", "delete"]), "path": c.path + name}
            if r.random() < 0.4:
                # conditional PUT on an absent resource
                body, ct = self.body_for(name)
                cond = {"if_match": self.cond_refs(c.path + name, r.choice(["star", "garbage", "other"]))} if r.random() < 0.5 else {"if_none_match": self.cond_refs(c.path + name, r.choice(["star", "garbage", "other", "empty"]))}
                return {"op": "put", "coll": c.path, "name": name, "body": b2s(body), "ctype": ct, "cond": cond}
            return op
        if k == "delete_coll":
            cs = [c for c in self.store_colls() if c.path not in ("/user/calendars/", "/user/contacts/")]
            if not cs:
                return None
            c = r.choice(cs)
            op = {"op": "delete", "path": c.path if r.random() < 0.7 else c.path.rstrip("/")}
            if self.prop == "C03" and r.random() < 0.6:
                # a validator that cannot be the collection's: garbage, or an earlier tag of the collection
                olds = [t["token"] for t in self.tokens.get(c.path, [])][:-1]
                o = self.obs.get(c.path)
                olds = [t for t in olds if not (o is not None and o.tags.get("getetag") and t in o.tags.get("getetag"))]
                lit = '"%s"' % r.choice(olds) if (olds and r.random() < 0.5) else r.choice(['"zzz"', '"0000000000000000000000000000000000000000"'])
                op["cond"] = {"if_match": [{"lit": lit}]}
            return op
        if k in ("mkcol", "mkcalendar"):
            parents = [p for p in ("/user/calendars/", "/user/contacts/", "/user/") if p in m.colls]
            parent = r.choice(parents)
            gone = [t for t in getattr(self, "deleted_colls", []) if t[0] not in m.colls and m.parent_of(t[0]) in m.colls]
            if gone and r.random() < 0.5:
                # re-create a deleted collection at the same path, preferably as another type
                path, oldkind = r.choice(gone)
                kind = r.choice([x for x in ("plain", "calendar", "addressbook") if x != oldkind])
                if kind == "calendar" and r.random() < 0.5:
                    return {"op": "mkcalendar", "path": path, "props": []}
                return {"op": "mkcol", "path": path, "kind": kind, "props": []}
            for _ in range(10):
                nm = r.choice(["c1", "c2", "work", "home", "sub"]) if self.names_mode == "simple" or r.random() < (0.3 if self.prop == "C16" else 0.7) else gen.member_base(r, self.names_mode)
                if parent + nm + "/" not in m.colls:
                    break
            else:
                return None
            path = parent + nm + ("/" if r.random() < 0.6 else "")
            if k == "mkcalendar":
                op = {"op": "mkcalendar", "path": path, "props": []}
                kind = "calendar"
            else:
                kind = r.choice(["plain", "calendar", "addressbook", "plain", "calendar", "addressbook", "subscription"])
                op = {"op": "mkcol", "path": path, "kind": kind, "props": []}
            if r.random() < 0.6:
                op["props"] = self.gen_prop_sets(kind, "tree", r.randint(1, 3))
            return op
        if k == "proppatch":
            c = self.pick_coll()
            instrs = []
            tags = PROPS_FOR_KIND[c.kind]
            for _ in range(r.randint(1, 3)):
                t = r.choice(tags)
                if r.random() < (0.4 if self.prop == "C15" else 0.2) and (t in c.props):
                    instrs.append(["remove", t, None])
                    if r.random() < 0.4:
                        # "reset, then set" in one request: instructions apply in document order
                        instrs.append(["set", t, self.gen_prop_value(t, c.backend)])
                else:
                    instrs.append(["set", t, self.gen_prop_value(t, c.backend)])
            return {"op": "proppatch", "path": c.path, "instrs": instrs}
        if k in ("get", "get_cond"):
            pm = self.pick_member()
            if pm is None:
                return {"op": "get", "path": "/user/calendars/calendar/nothing.ics"}
            c, name = pm
            op = {"op": r.choice(["get", "head"]), "path": c.path + name}
            if k == "get_cond":
                op["cond"] = {"if_none_match": self.cond_refs(c.path + name)}
            return op
        if k == "propfind":
            c = self.pick_coll()
            special = [x for x in self.store_colls() if any(ch in x.name for ch in " %#?;+&=@:~(),'") or any(ord(ch) > 127 for ch in x.name)]
            if self.prop == "C16" and special and r.random() < 0.5:
                c = r.choice(special)
            pm = self.pick_member()
            path = c.path if (pm is None or r.random() < 0.6) else pm[0].path + pm[1]
            return {"op": "propfind", "path": path, "depth": r.choice(["0", "1"]), "kind": r.choice(["prop", "allprop", "propname"])}
        if k == "multiget":
            c = self.pick_coll(("calendar", "addressbook"))
            return {"op": "report", "report": "multiget", "coll": c.path, "hrefs": self.gen_hrefs(c)}
        if k == "partial":
            c = self.pick_coll(("calendar",))
            if c.kind != "calendar" or not c.members:
                return None
            names = [n for n in sorted(c.members) if n.endswith(".ics")]
            if not names:
                return None
            return {"op": "report", "report": "partial", "coll": c.path, "kind": r.choice(["multiget", "query"]), "mode": r.choice(["props", "props", "expand"]),
                    "names": r.sample(names, min(len(names), r.randint(1, 3)))}
        if k == "query":
            c = self.pick_coll(("calendar",))
            if c.kind != "calendar":
                return None
            spec = r.choice([
                {"comp": "VEVENT"}, {"comp": "VTODO"}, {"comp": None},
                {"comp": "VEVENT", "prop": {"name": "SUMMARY", "test": {"text": "plain"}}},
                {"comp": "VEVENT", "prop": {"name": "LOCATION", "test": "absent"}},
            ])
            return {"op": "report", "report": "query", "coll": c.path, "filter": spec}
        if k == "sync":
            c = self.pick_coll(("calendar", "addressbook", "plain"))
            if self.prop == "C07" and r.random() < 0.6:
                # prefer a (collection, token) pair with both changed and removed members since then
                best = []
                for path, toks in sorted(self.tokens.items()):
                    o = self.obs.get(path)
                    if o is None or not o.exists or path not in self.model.colls:
                        continue
                    now = {n: m.get("etag") for n, m in o.members.items()}
                    for i, t in enumerate(toks):
                        ch = any(t["snap"].get(n) != e for n, e in now.items())
                        rm = any(n not in now for n in t["snap"])
                        if ch and rm:
                            best.append((path, i))
                if best:
                    path, i = r.choice(best)
                    return {"op": "report", "report": "sync", "coll": path, "token": {"issued": i}}
            toks = self.tokens.get(c.path, [])
            choice = r.random()
            if toks and choice < 0.6:
                tok = {"issued": r.randrange(max(1, (len(toks) + 1) // 2)) if r.random() < 0.7 else r.randrange(len(toks))}
            elif choice < 0.7:
                tok = {"lit": ""}
            elif choice < 0.8:
                tok = {"foreign": r.choice(["random40", "garbage", "blob", "commit", "othercoll"])}
            else:
                tok = {"record": True}
            return {"op": "report", "report": "sync", "coll": c.path, "token": tok}
        if k == "put_invalid":
            # the media type decides, not the collection: plain WebDAV collections refuse them too
            c = self.pick_coll(("calendar", "addressbook", "plain") if r.random() < 0.3 else ("calendar", "addressbook"))
            if c.kind == "calendar" or (c.kind == "plain" and r.random() < 0.6):
                cls = r.choice(sorted(gen.INVALID_ICS))
                body = gen.INVALID_ICS[cls](r)
                ext, ct = ".ics", "text/calendar"
            else:
                cls = r.choice(sorted(gen.INVALID_VCF))
                body = gen.INVALID_VCF[cls](r)
                ext, ct = ".vcf", "text/vcard"
            if c.members and r.random() < 0.4:
                cands = [n for n in sorted(c.members) if n.endswith(ext)]
                name = r.choice(cands) if cands else self.new_name(c)
            else:
                name = self.new_name(c)
            if not name.endswith(ext):
                return None
            if r.random() < 0.3:
                ct += r.choice(["; charset=utf-8", ";charset=UTF-8", "; component=VEVENT"])
            return {"op": "put", "coll": c.path, "name": name, "body": b2s(body), "ctype": ct, "invalid": cls}
        if k == "put_cut":
            if self.cfg.get("frontend") != "aiohttp" or not self.cfg.get("faults", True):
                return None
            pm = self.pick_member()
            c = self.pick_coll()
            if pm is not None and r.random() < 0.6:
                c, name = pm
            else:
                name = self.new_name(c)
            body, ct = self.body_for(name)
            return {"op": "put_cut", "coll": c.path, "name": name, "body": b2s(body), "ctype": ct, "keep": r.choice([0.0, 0.3, 0.6, 0.95])}
        if k == "put_badpath":
            c = self.pick_coll()
            name = self.new_name(c)
            body, ct = self.body_for(name)
            where = r.choice(["nocoll", "under_member", "under_principal"])
            if where == "nocoll":
                coll = c.path + "missing/"
            elif where == "under_member" and c.members:
                coll = c.path + r.choice(sorted(c.members)) + "/"
            else:
                coll = "/nouser/"
            return {"op": "put", "coll": coll, "name": name, "body": b2s(body), "ctype": ct, "badpath": True}
        if k == "restart":
            return {"op": "restart"}
        if k == "evict":
            return {"op": "evict"}
        if k == "clock":
            return {"op": "clock", "dt": r.choice([1, 60, 3600, 86400 * 40, -3600, -86400 * 400, 10 ** 9])}
        if k == "reupload":
            pm = self.pick_member(("calendar", "addressbook"))
            if pm is None:
                return None
            return {"op": "reupload", "path": pm[0].path + pm[1]}
        return None

    def gen_prop_value(self, tag, backend):
        r = self.rng
        if tag in (dav.P_CAL_COLOR, dav.P_AB_COLOR):
            c = gen.color(r)
            if self.prop != "C15" and r.random() < 0.25:
                # the bare RRGGBB form some clients send: outside C15's value grammar (never pinned
                # for read-back), but reads of it must still be reads
                return c[1:]
            return c
        if tag == dav.P_CAL_ORDER:
            return str(r.randint(0, 9999))
        return gen.prop_text(r, allow_semicolon=(backend != "gitcfg"))

    def gen_prop_sets(self, kind, backend, n):
        tags = PROPS_FOR_KIND[kind]
        out = []
        for _ in range(n):
            t = self.rng.choice(tags)
            out.append([t, self.gen_prop_value(t, backend)])
        return out

    def gen_hrefs(self, c):
        r = self.rng
        out = []
        names = sorted(c.members)
        n = r.randint(1, 6)
        for _ in range(n):
            k = r.choice(["live", "live", "live", "dead", "never", "dup", "variant", "abs", "other", "outside", "lookalike", "coll", "malformed"])
            if k == "live" and names:
                out.append({"rel": c.path + r.choice(names)})
            elif k == "dead":
                dead = [p for p in self.model.tomb if p.startswith(c.path)]
                out.append({"rel": r.choice(dead) if dead else c.path + "never-there.ics"})
            elif k == "never":
                out.append({"rel": c.path + "never-%d.ics" % r.randint(0, 99)})
            elif k == "dup" and out:
                out.append(dict(r.choice(out)))
            elif k == "variant" and names:
                special = [n for n in names if any(ch in n for ch in ";,=+&@:'()")]
                plain = [n for n in names if not any(ch in n for ch in ";,=+&@:'()% #?")]
                if special and r.random() < 0.5:
                    # sub-delimiters sent literally, as RFC 3986 allows inside a path segment
                    out.append({"rel": c.path + r.choice(special), "enc": "subdelims"})
                elif plain and r.random() < 0.5:
                    # a never-existing name that differs from a member only behind a literal ';'
                    n = r.choice(plain)
                    out.append({"rel": c.path + n + r.choice([";v=2", ";x", ",2"]), "enc": "subdelims"})
                    if r.random() < 0.5:
                        out.append({"rel": c.path + n})
                else:
                    out.append({"rel": c.path + r.choice(names), "enc": r.choice(["full", "lower", "plain", "dslash", "dotseg"])})
            elif k == "abs" and names:
                out.append({"rel": c.path + r.choice(names), "abs": True})
            elif k == "other":
                o = self.pick_member()
                if o:
                    out.append({"rel": o[0].path + o[1]})
            elif k == "outside":
                out.append({"raw": r.choice(["/elsewhere/x.ics", "/", "x.ics", "../x.ics"])})
            elif k == "lookalike" and names and self.world.prefix != "/":
                # shares the route prefix only as a string prefix
                pre = self.world.prefix.rstrip("/")
                out.append({"raw": urllib.parse.quote(pre + c.path.lstrip("/") + r.choice(names), safe="/")})
            elif k == "coll":
                out.append({"rel": c.path})
            elif k == "malformed":
                out.append({"raw": r.choice(["", "http://[::1/x", "%zz", "?q=1"])})
        if not out:
            out.append({"rel": c.path + "never.ics"})
        return out

    # -------------------------------------------------------------- execution
    def resolve_refs(self, refs):
        vals = []
        for ref in refs:
            if "lit" in ref:
                vals.append(ref["lit"])
            elif "cur" in ref:
                vals.append(self.current_etag(ref["cur"]) or '"none"')
            elif "weak" in ref:
                vals.append("W/" + (self.current_etag(ref["weak"]) or '"none"'))
            elif "cur_unquoted" in ref:
                vals.append((self.current_etag(ref["cur_unquoted"]) or '"none"').strip('"'))
            elif "old" in ref:
                h = self.model.etag_hist.get(ref["old"], [])
                cur = self.current_etag(ref["old"])
                olds = [e for e in h if e != cur]
                if olds:
                    vals.append(olds[-min(ref.get("k", 1), len(olds))])
                else:
                    vals.append('"1111111111111111111111111111111111111111"')
        return ", ".join(vals)

    def current_etag(self, rel):
        for p, c in self.model.colls.items():
            if rel.startswith(p) and rel[len(p):] in c.members:
                return c.members[rel[len(p):]].etag
        return None

    def find_member(self, rel):
        best = None
        for p, c in self.model.colls.items():
            if rel.startswith(p) and "/" not in rel[len(p):] and rel[len(p):]:
                if best is None or len(p) > len(best[0].path):
                    best = (c, rel[len(p):])
        return best

    def run(self):
        self.boot()
        try:
            if self.replay_ops is not None:
                for op in self.replay_ops:
                    self.do_step(dict(op))
                    if self.violations:
                        break
            else:
                for i in range(self.cfg.get("steps", 15)):
                    op = self.gen_op()
                    self.do_step(op)
                    if self.violations:
                        break
            if not self.violations:
                self.final_checks()
        finally:
            self.result_world = {
                "nreq": self.world.nreq if self.world else 0,
                "restarts": self.world.restarts if self.world else 0,
                "evictions": self.world.evictions if self.world else 0,
                "errors": (self.world.errors[:5] if self.world else []),
            }
            self.close()
            if self.world is not None:
                self.result_world["virtual_s"] = self.world.virtual_s + CLOCK.total_advanced
        return self.result()

    def result(self):
        return {
            "violations": [dict(v) for v in self.violations[:5]],
            "ops": self.ops,
            "cfg": self.cfg,
            "stats": self.stats,
            "digest": self.digest.hexdigest(),
            "digest_hi": self.digest_hi.hexdigest(),
            "world": self.result_world,
            "nontrivial": self.nontrivial,
            "states": len(self.states),
            "transitions": len(self.transitions),
            "resyncs": self.resyncs,
            "fs": {"mut": FS.mut_seq, "ev": FS.ev_seq, "bypass": len(FS.bypass), "bypass_sample": FS.bypass[:3]},
            "clock_jumps": CLOCK.jumps,
        }

    def do_step(self, op):
        self.step_no += 1
        self.ops.append(op)
        self.world.reseed(op.get("salt", 0))
        before = self.obs
        before_fp = {p: o.fingerprint() for p, o in before.items()}
        pre_state = self.model_digest()
        kind = op["op"]
        self.count("op." + kind)
        handler = getattr(self, "x_" + kind)
        fault = op.get("fault")
        if fault:
            import errno as _errno

            FS.err_at = {FS.mut_seq + fault["after"]: getattr(_errno, fault["errno"])}
            FS.err_fired = []
        rfault = op.get("read_fault")
        if op.get("cold"):
            self.world.evict()
            self.count("fault.cache_evict")
        if rfault:
            import errno as _errno

            FS.read_err_at = {FS.ev_seq + rfault["after"]: getattr(_errno, rfault["errno"])}
            FS.err_fired = []
        ctx = handler(op)
        if rfault:
            FS.read_err_at = {}
            if FS.err_fired:
                self.count("fault.read_error_" + rfault["errno"].lower())
                if ctx is not None:
                    ctx["io_fault"] = True
                    ctx["read_fault"] = True
                FS.err_fired = []
        if fault:
            FS.err_at = {}
            if FS.err_fired:
                self.count("fault.io_error_" + fault["errno"].lower())
                if ctx is not None:
                    ctx["io_fault"] = True
                    if (ctx.get("status") or 0) >= 500 and kind in ("put", "post", "delete") and self.replay_ops is None and self.frng.random() < 0.6:
                        # the client retries the same request once the storage works again
                        retry = {k_: v_ for k_, v_ in op.items() if k_ not in ("fault", "read_fault", "salt", "chunks")}
                        self.queue = [retry] + list(getattr(self, "queue", None) or [])
                        self.count("retries_after_failed_write")
                FS.err_fired = []
        # audit after every step
        after = self.audit()
        if ctx is None:
            ctx = {}
        self.post_step(op, ctx, before, before_fp, after)
        st = self.model_digest()
        self.states.add(st)
        self.transitions.add((pre_state, kind, ctx.get("status")))
        self.log(self.step_no, kind, ctx.get("status"), st)

    def model_digest(self):
        parts = []
        for p, c in sorted(self.model.colls.items()):
            parts.append((p, c.kind, tuple(sorted((n, sha(mm.served or b"?")) for n, mm in c.members.items())), tuple(sorted(c.props.items()))))
        return hashlib.sha1(repr(parts).encode("utf-8", "replace")).hexdigest()[:16]

    # each x_<op> returns ctx: {"status": int, "target_coll": path, ...}
    def hdrs_for(self, op, extra=()):
        h = list(extra)
        cond = op.get("cond") or {}
        if "if_match" in cond:
            h.append(("If-Match", self.resolve_refs(cond["if_match"])))
        if "if_none_match" in cond:
            h.append(("If-None-Match", self.resolve_refs(cond["if_none_match"])))
        return h

    def delivery(self, op):
        kw = {}
        if op.get("chunks") and self.cfg.get("frontend") == "aiohttp":
            kw["chunks"] = op["chunks"]
            self.count("fault.chunked_delivery")
        return kw

    def eval_cond(self, op, rel):
        """Evaluate the preconditions exactly as C03 states them.
        Returns (must_fail: bool, header values)."""
        cond = op.get("cond") or {}
        cur = self.current_etag(rel)
        exists = self.find_live(rel)
        must_fail = False
        vals = {}
        if "if_match" in cond:
            hv = self.resolve_refs(cond["if_match"])
            vals["If-Match"] = hv
            tags = [t.strip(" ") for t in hv.split(",")]
            ok = exists and any(t == "*" or (cur is not None and t == cur) for t in tags)
            if not ok:
                must_fail = True
        if "if_none_match" in cond:
            hv = self.resolve_refs(cond["if_none_match"])
            vals["If-None-Match"] = hv
            tags = [t.strip(" ") for t in hv.split(",")] if hv else []
            hit = exists and any(t == "*" or (cur is not None and t == cur) for t in tags)
            if hit:
                must_fail = True
        return must_fail, vals

    def find_live(self, rel):
        fm = self.find_member(rel)
        return bool(fm and fm[1] in fm[0].members)

    def x_put(self, op):
        coll = op["coll"]
        name = op["name"]
        rel = coll + name
        body = s2b(op["body"])
        must_fail, vals = self.eval_cond(op, rel)
        existed = self.find_live(rel)
        r = self.world.req("PUT", rel, self.hdrs_for(op, [("Content-Type", op["ctype"])]), body, **self.delivery(op))
        st = r.status if r is not None else None
        ctx = {"status": st, "coll": coll, "rel": rel, "must_fail": must_fail, "existed": existed, "cond": vals,
               "resp": r, "body": body, "write": True}
        c = self.model.colls.get(coll)
        if st in (201, 204) and c is not None and c.kind != "principal":
            mm = MMember(body, op["ctype"])
            old = c.members.get(name)
            ctx["old_served"] = old.served if old else None
            ctx["old_etag"] = old.etag if old else None
            c.members[name] = mm
            ctx["put_etag"] = r.header("ETag")
            if rel in self.model.tomb:
                self.model.tomb = [t for t in self.model.tomb if t != rel]
        elif st in (201, 204):
            ctx["unexpected_success"] = True
        return ctx

    def x_put_cut(self, op):
        """The client connection dies before the request body is complete."""
        body = s2b(op["body"])
        rel = op["coll"] + op["name"]
        head, b = self.world.srv.raw_request("PUT", self.world.target(rel), [("Content-Type", op["ctype"])], body)
        cut = len(head) + int(len(b) * op.get("keep", 0.5))
        if cut >= len(head) + len(b):
            cut = len(head) + len(b) - 1
        r = self.world.req("PUT", rel, [("Content-Type", op["ctype"])], body, cut_at=cut)
        self.count("fault.truncated_delivery")
        return {"status": r.status if r is not None else None, "rel": rel, "coll": op["coll"], "write": True, "resp": r, "truncated": True}

    def x_post(self, op):
        coll = op["coll"]
        body = s2b(op["body"])
        r = self.world.req("POST", coll, [("Content-Type", op["ctype"])], body, **self.delivery(op))
        st = r.status if r is not None else None
        ctx = {"status": st, "coll": coll, "resp": r, "write": True, "body": body}
        if st in (200, 201):
            loc = r.header("Location")
            ctx["location"] = loc
            c = self.model.colls.get(coll)
            if loc and c is not None:
                raw = dav.href_path(loc, self.world.target(coll))
                rel = rel_of(self.world, raw)
                if rel is not None and rel.startswith(coll) and "/" not in rel[len(coll):]:
                    name = rel[len(coll):]
                    if name in c.members:
                        self.v("C01", "C01.post-overwrote-existing-member", "POST %s answered %s with Location %r, which is the existing member %s: add-member altered another resource" % (coll, st, loc, name), backend=c.backend)
                    c.members[name] = MMember(body, op["ctype"])
                    ctx["rel"] = rel
                    if op["ctype"].split(";")[0].strip() == "text/calendar":
                        # a calendar object resource whatever name the server chose for it
                        self.post_cal.add(rel)
                else:
                    self.count("post_location_not_a_member_path")
                    self.adopt = (coll, body, op["ctype"])
        return ctx

    def x_delete(self, op):
        rel = op["path"]
        must_fail, vals = self.eval_cond(op, rel)
        r = self.world.req("DELETE", rel, self.hdrs_for(op))
        st = r.status if r is not None else None
        ctx = {"status": st, "rel": rel, "must_fail": must_fail, "cond": vals, "write": True, "resp": r,
               "existed": self.find_live(rel)}
        if st in (200, 204):
            cpath = rel if rel.endswith("/") else rel + "/"
            if cpath in self.model.colls:
                if not hasattr(self, "deleted_colls"):
                    self.deleted_colls = []
                self.deleted_colls.append((cpath, self.model.colls[cpath].kind))
                # observer state belongs to the collection, not to the path
                for d in (self.tokens, self.tag_states, self.git_heads):
                    for key in [k for k in d if k.startswith(cpath)]:
                        del d[key]
                self.model.drop_tree(cpath)
                self.post_cal = {x for x in self.post_cal if not x.startswith(cpath)}
                ctx["deleted_coll"] = cpath
            else:
                fm = self.find_member(rel)
                if fm and fm[1] in fm[0].members:
                    ctx["old_etag"] = fm[0].members[fm[1]].etag
                    del fm[0].members[fm[1]]
                    self.post_cal.discard(rel)
                    self.model.tomb.append(rel)
                    ctx["coll"] = fm[0].path
                else:
                    ctx["unexpected_success"] = True
        return ctx

    def _mk_common(self, op, method, body, ctype):
        path = op["path"]
        cpath = path if path.endswith("/") else path + "/"
        hdrs = [("Content-Type", ctype)] if ctype else []
        r = self.world.req(method, path, hdrs, body, **self.delivery(op))
        st = r.status if r is not None else None
        ctx = {"status": st, "rel": cpath, "write": True, "resp": r}
        return ctx, cpath, r, st

    def x_mkcol(self, op):
        kind = op["kind"]
        props = op.get("props") or []
        if kind == "plain" and not props:
            body, ctype = b"", None
        else:
            rts = {"plain": [dav.RT_COLLECTION], "calendar": [dav.RT_COLLECTION, dav.RT_CALENDAR], "addressbook": [dav.RT_COLLECTION, dav.RT_ADDRESSBOOK],
                   "subscription": [dav.RT_COLLECTION, dav.RT_SUBSCRIBED]}[kind]
            body, ctype = dav.mkcol_body(rts, props), "text/xml; charset=utf-8"
        ctx, cpath, r, st = self._mk_common(op, "MKCOL", body, ctype)
        if st == 201:
            self.after_mk(cpath, kind, props, r, ctx, bool(body))
        return ctx

    def x_mkcalendar(self, op):
        props = op.get("props") or []
        if props:
            body, ctype = dav.mkcol_body([], props, "{%s}mkcalendar" % dav.CAL), "text/xml; charset=utf-8"
        else:
            body, ctype = b"", None
        ctx, cpath, r, st = self._mk_common(op, "MKCALENDAR", body, ctype)
        if st == 201:
            self.after_mk(cpath, "calendar", props, r, ctx, bool(body))
        return ctx

    def after_mk(self, cpath, kind, props, r, ctx, had_body):
        c = MColl(cpath, kind, "tree")
        self.model.colls[cpath] = c
        self.model.tomb = [t for t in self.model.tomb if not (t + "/").startswith(cpath) and t != cpath.rstrip("/")]
        ctx["created"] = cpath
        stat = {}
        if had_body and r.body:
            try:
                root = ET.fromstring(r.body)
                for ps in root.iter("{DAV:}propstat"):
                    code = None
                    tags = []
                    for d in ps:
                        if d.tag == "{DAV:}status":
                            code = int((d.text or "0 0").split()[1])
                        elif d.tag == "{DAV:}prop":
                            tags = [e.tag for e in d]
                    for t in tags:
                        stat[t] = code
            except (ET.ParseError, ValueError, IndexError):
                pass
        ctx["propstat"] = stat
        for t, val in props:
            if stat.get(t) == 200 and not (t in (dav.P_CAL_COLOR, dav.P_AB_COLOR) and not (val or "").startswith("#")):
                c.props[t] = val
                c.removed.pop(t, None)
        rt_status = stat.get(dav.P_RESOURCETYPE)
        if kind != "plain" and had_body and rt_status not in (200, None) and r.body:
            c.kind = "plain"

    def x_proppatch(self, op):
        path = op["path"]
        instrs = [tuple(i) for i in op["instrs"]]
        r = self.world.req("PROPPATCH", path, [dav.XML_CT], dav.proppatch_body(instrs), **self.delivery(op))
        st = r.status if r is not None else None
        ctx = {"status": st, "rel": path, "coll": path, "write": True, "resp": r, "instrs": instrs, "propstat": {}}
        if st == 207:
            try:
                resps, _ = dav.parse_multistatus(r.body)
            except (ET.ParseError, ValueError):
                resps = []
            stat = {}
            for ms in resps:
                for code, props in ms.propstats:
                    for t in props:
                        stat[t] = code
                ctx["ms_href"] = ms.href
            ctx["propstat"] = stat
            c = self.model.colls.get(path)
            if c is not None:
                # instructions are processed in document order
                for kind, t, val in instrs:
                    if stat.get(t) == 200:
                        if kind == "set":
                            if t in (dav.P_CAL_COLOR, dav.P_AB_COLOR) and not (val or "").startswith("#"):
                                c.props.pop(t, None)
                                c.removed.pop(t, None)
                                self.count("bare_colour_set")
                                continue
                            c.props[t] = val
                            c.removed.pop(t, None)
                        else:
                            old = c.props.pop(t, None)
                            c.removed[t] = old
        return ctx

    def x_get(self, op, method="GET"):
        rel = op["path"]
        hd = self.hdrs_for(op)
        cur = self.current_etag(rel)
        r = self.world.req(method, rel, hd)
        ctx = {"status": r.status if r is not None else None, "rel": rel, "resp": r, "read": True, "method": method}
        cond = op.get("cond") or {}
        if "if_none_match" in cond:
            hv = self.resolve_refs(cond["if_none_match"])
            tags = [t.strip(" ") for t in hv.split(",")] if hv else []
            ctx["inm_hit"] = bool(self.find_live(rel) and any(t == "*" or (cur is not None and t == cur) for t in tags))
            ctx["cond"] = {"If-None-Match": hv}
        return ctx

    def x_head(self, op):
        return self.x_get(op, "HEAD")

    def x_propfind(self, op):
        body = dav.propfind_body([dav.P_GETETAG, dav.P_RESOURCETYPE, dav.P_DISPLAYNAME, dav.P_CUP, dav.P_ADD_MEMBER], op.get("kind", "prop"))
        r = self.world.req("PROPFIND", op["path"], [("Depth", op.get("depth", "0")), dav.XML_CT], body, **self.delivery(op))
        return {"status": r.status if r is not None else None, "rel": op["path"], "resp": r, "read": True, "depth": op.get("depth", "0")}

    def href_text(self, h):
        if "raw" in h:
            return h["raw"]
        rel = h["rel"]
        enc = h.get("enc")
        if enc == "full":
            # percent-encode every character of the last segment
            head, _, last = rel.rpartition("/")
            t = self.world.prefix.rstrip("/") + urllib.parse.quote(head + "/", safe="/") + "".join("%%%02X" % b for b in last.encode("utf-8"))
        elif enc == "lower":
            t = self.world.target(rel)
            t = "".join(ch.lower() if i > 0 and t[i - 1] == "%" or (i > 1 and t[i - 2] == "%") else ch for i, ch in enumerate(t))
        elif enc == "subdelims":
            t = self.world.prefix.rstrip("/") + urllib.parse.quote(rel, safe="/;,=+&@:'()!*$")
        elif enc in ("dslash", "dotseg"):
            # another spelling of the same path: a doubled slash or a "." segment before the last segment
            head, _, last = rel.rpartition("/")
            t = self.world.prefix.rstrip("/") + urllib.parse.quote(head, safe="/") + ("//" if enc == "dslash" else "/./") + urllib.parse.quote(last)
        else:
            t = self.world.target(rel)
        if h.get("abs"):
            t = "http://sim" + t
        return t

    def x_report(self, op):
        coll = op["coll"]
        c = self.model.colls.get(coll)
        kind = op["report"]
        ctx = {"rel": coll, "read": True, "report": kind}
        if kind == "multiget":
            which = "calendar" if (c is None or c.kind != "addressbook") else "addressbook"
            texts = [self.href_text(h) for h in op["hrefs"]]
            r = self.world.req("REPORT", coll, [dav.XML_CT, ("Depth", "1")], dav.multiget_body(which, texts), **self.delivery(op))
            ctx.update(resp=r, href_texts=texts, which=which)
            if op.get("fault_sweep"):
                # the same multiget again with a read error at its 1st, 2nd, ... file-system event
                import errno as _errno

                from . import hist_oracles

                for k in range(1, int(op["fault_sweep"]) + 1):
                    FS.err_fired = []
                    ev0 = FS.ev_seq
                    FS.read_err_at = {ev0 + k: _errno.EIO}
                    rk = self.world.req("REPORT", coll, [dav.XML_CT, ("Depth", "1")], dav.multiget_body(which, texts))
                    FS.read_err_at = {}
                    if not FS.err_fired:
                        if FS.ev_seq - ev0 < k:
                            break
                        continue
                    FS.err_fired = []
                    self.count("fault.read_error_eio")
                    hist_oracles.c17(self, op, dict(ctx, resp=rk, status=rk.status if rk is not None else None, read_fault=True, io_fault=True), self.obs)
        elif kind == "query":
            r = self.world.req("REPORT", coll, [dav.XML_CT, ("Depth", "1")], dav.calquery_body(dav.cal_filter(op["filter"])), **self.delivery(op))
            ctx.update(resp=r)
        elif kind == "partial":
            r = self.world.req("REPORT", coll, [dav.XML_CT, ("Depth", "1")],
                               dav.partial_data_body(op["kind"], [self.world.target(coll + n) for n in op["names"]], op["mode"]), **self.delivery(op))
            ctx.update(resp=r)
            self.count("partial_calendar_data_reports")
        else:
            tok = op["token"]
            toks = self.tokens.setdefault(coll, [])
            ctx["tokinfo"] = None
            if tok.get("record"):
                o = self.obs.get(coll)
                if o is not None and o.exists and o.tags.get("sync"):
                    toks.append({"step": self.step_no, "token": o.tags["sync"], "snap": {n: m.get("etag") for n, m in o.members.items()}})
                    self.count("sync.tokens_recorded")
                return {"status": None, "rel": coll, "read": True, "report": "sync-record"}
            if "issued" in tok:
                if not toks:
                    return {"status": None, "rel": coll, "read": True, "report": "sync-skip"}
                ti = toks[min(tok["issued"], len(toks) - 1)]
                text = ti["token"]
                ctx["tokinfo"] = ti
            elif "lit" in tok:
                text = tok["lit"]
                ctx["tokinfo"] = {"empty": True} if text == "" else {"never": True}
            else:
                text = self.foreign_token(coll, tok["foreign"], op.get("salt", 0))
                ctx["tokinfo"] = {"never": True, "class": tok["foreign"]}
                if text is None:
                    return {"status": None, "rel": coll, "read": True, "report": "sync-skip"}
            ctx["token_text"] = text
            r = self.world.req("REPORT", coll, [dav.XML_CT], dav.sync_body(text), **self.delivery(op))
            ctx.update(resp=r)
            if op.get("fault_sweep") and ctx["tokinfo"] is not None and not ctx["tokinfo"].get("never"):
                # fault enumeration inside one read-only request: the same report again with a read
                # error at its 1st, 2nd, ... file-system event; each answer is judged on its own
                import errno as _errno

                from . import hist_oracles

                FS.read_err_refs = True
                for k in range(1, int(op["fault_sweep"]) + 1):
                    FS.err_fired = []
                    ev0 = FS.ev_seq
                    FS.read_err_at = {ev0 + k: _errno.EIO}
                    rk = self.world.req("REPORT", coll, [dav.XML_CT], dav.sync_body(text))
                    FS.read_err_at = {}
                    if not FS.err_fired:
                        if FS.ev_seq - ev0 < k:
                            break  # past the end of the request
                        continue
                    if os.environ.get("XSIM_DEBUG_SWEEP"):
                        print("sweep", k, FS.err_fired[0][:2], rk.status if rk is not None else None, (rk.body or b"")[-260:] if rk is not None else None)
                    FS.err_fired = []
                    self.count("fault.read_error_eio")
                    hist_oracles.c07(self, op, dict(ctx, resp=rk, status=rk.status if rk is not None else None, read_fault=True, io_fault=True), self.obs)
                FS.read_err_refs = False
        ctx["status"] = r.status if r is not None else None
        return ctx

    def foreign_token(self, coll, cls, salt):
        rr = random.Random(salt)
        if cls == "random40":
            return "%040x" % rr.getrandbits(160)
        if cls == "garbage":
            return rr.choice(["not-a-token", "data:,x", "0" * 39, "g" * 40, "http://example.com/sync/1"])
        o = self.obs.get(coll)
        if cls == "blob":
            if o and o.members:
                e = sorted(o.members.items())[0][1].get("etag")
                return e.strip('"') if e else None
            return None
        if cls == "commit":
            return self.head_commit(coll)
        if cls == "othercoll":
            for p, oo in sorted(self.obs.items()):
                if p != coll and oo.exists and oo.tags.get("sync") and oo.member_state() != (o.member_state() if o else None):
                    issued = {t["token"] for t in self.tokens.get(coll, [])}
                    seen = self.tag_states.get(coll, {})
                    # the id of the empty tree is excluded: xandikos itself adds that
                    # object to every repository, and a diff against it is the (correct) full listing
                    if oo.tags["sync"] not in issued and oo.tags["sync"] not in seen and oo.tags["sync"] != "4b825dc642cb6eb9a060e54bf8d69288fbee4904" \
                            and oo.tags["sync"] not in self.historical_trees(coll):
                        return oo.tags["sync"]
        return None

    def historical_trees(self, coll):
        """Tree ids of every commit of the collection (git observer): states the
        collection has been in, including ones no client ever saw."""
        import os

        from dulwich.repo import Repo

        a = FS.active
        FS.active = False
        out = set()
        try:
            try:
                rp = Repo(os.path.join(self.arena.root, coll.strip("/")))
            except Exception:
                return out
            try:
                try:
                    head = rp.head()
                except KeyError:
                    return out
                for e in rp.get_walker(include=[head]):
                    out.add(e.commit.tree.decode("ascii"))
            finally:
                rp.close()
        finally:
            FS.active = a
        return out

    def head_commit(self, coll):
        import os

        from dulwich.repo import Repo

        a = FS.active
        FS.active = False
        try:
            p = os.path.join(self.arena.root, coll.strip("/"))
            try:
                rp = Repo(p)
            except Exception:
                return None
            try:
                return rp.head().decode("ascii")
            except KeyError:
                return None
            finally:
                rp.close()
        finally:
            FS.active = a

    DEFAULTS = (("/user/calendars/", "plain"), ("/user/contacts/", "plain"), ("/user/calendars/calendar/", "calendar"),
                ("/user/contacts/addressbook/", "addressbook"), ("/user/inbox/", "inbox"))

    def x_restart(self, op):
        self.world.restart()
        self.count("fault.restart")
        ctx = {"status": None, "nochange": True}
        if self.cfg.get("frontend") == "aiohttp" and self.cfg.get("autocreate") == "defaults":
            # --defaults is start-up configuration: missing default
            # collections are (re-)created empty; that is not a request effect
            for path, kind in self.DEFAULTS:
                if path not in self.model.colls:
                    self.model.colls[path] = MColl(path, kind, "tree")
                    self.model.tomb = [t for t in self.model.tomb if t != path.rstrip("/") and not t.startswith(path)]
                    self.obs.pop(path, None)
                    ctx["recreated_defaults"] = True
                    self.count("restart_recreated_default")
        return ctx

    def x_evict(self, op):
        self.world.evict()
        self.count("fault.cache_evict")
        return {"status": None, "nochange": True}

    def x_clock(self, op):
        CLOCK.advance(op["dt"])
        self.count("fault.clock_jump" if (op["dt"] < 0 or op["dt"] > 86400) else "clock_advance")
        return {"status": None, "nochange": True}

    def x_reupload(self, op):
        rel = op["path"]
        fm = self.find_member(rel)
        if not fm or fm[1] not in fm[0].members or fm[0].members[fm[1]].served is None:
            return {"status": None, "nochange": True}
        c, name = fm
        mm = c.members[name]
        o = self.obs.get(c.path)
        ct = (o.members.get(name, {}).get("get_ctype") if o else None) or "application/octet-stream"
        commits_before = self.commit_count(c.path)
        r = self.world.req("PUT", rel, [("Content-Type", ct)], mm.served)
        st = r.status if r is not None else None
        ctx = {"status": st, "rel": rel, "coll": c.path, "reupload": True, "resp": r, "old_etag": mm.etag,
               "old_tags": dict(o.tags) if o else {}, "commits_before": commits_before, "write": True}
        if st in (201, 204):
            nm = MMember(mm.served, ct)
            nm.served = mm.served
            nm.uid = mm.uid
            c.members[name] = nm
            ctx["put_etag"] = r.header("ETag")
        return ctx

    def commit_count(self, coll):
        import os

        from dulwich.repo import Repo

        a = FS.active
        FS.active = False
        try:
            p = os.path.join(self.arena.root, coll.strip("/"))
            try:
                rp = Repo(p)
            except Exception:
                return None
            try:
                n = 0
                try:
                    head = rp.head()
                except KeyError:
                    return 0
                for _ in rp.get_walker(include=[head]):
                    n += 1
                return n
            finally:
                rp.close()
        finally:
            FS.active = a

    # --------------------------------------------------------------- oracles
    def post_step(self, op, ctx, before, before_fp, after):
        from . import hist_oracles

        hist_oracles.post_step(self, op, ctx, before, before_fp, after)

    def final_checks(self):
        from . import hist_oracles

        hist_oracles.final_checks(self)
