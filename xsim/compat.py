"""Dependency-seam adapters (DESIGN.md 1.2).

The pinned xandikos tree was written for older dulwich / icalendar releases
than the ones installed in this sandbox.  These two adapters restore the APIs
it calls; they contain no xandikos logic and switch themselves off when the
dependency already provides the API.  They live in the harness process only.
"""

ACTIVE = []


def install():
    import dulwich.repo

    if not hasattr(dulwich.repo.Repo, "do_commit"):

        def do_commit(self, message=None, **kw):
            return self.get_worktree().commit(message=message, **kw)

        dulwich.repo.Repo.do_commit = do_commit
        ACTIVE.append("dulwich.repo.Repo.do_commit -> WorkTree.commit")

    import xandikos.icalendar as xi
    import xandikos.caldav as xc

    cf = getattr(xi, "component_factory", None)
    try:
        cf["VEVENT"]
    except Exception:
        from icalendar.cal.component_factory import ComponentFactory

        f = ComponentFactory()
        xi.component_factory = f
        xc.component_factory = f
        ACTIVE.append("icalendar component_factory -> ComponentFactory()")
    return list(ACTIVE)
