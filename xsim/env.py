"""Process environment: the part of "a replay" that is not the seed.

`ensure()` re-executes the interpreter once so that hash randomisation, time
zone, locale and git identity are fixed, and puts the repository under test at
the front of sys.path.
"""

import os
import sys

FIXED = {
    "PYTHONHASHSEED": "0",
    "TZ": "UTC",
    "LC_ALL": "C.UTF-8",
    "LANG": "C.UTF-8",
    "GIT_CONFIG_NOSYSTEM": "1",
    "GIT_AUTHOR_NAME": "Sim Author",
    "GIT_AUTHOR_EMAIL": "author@sim.invalid",
    "GIT_COMMITTER_NAME": "Sim Committer",
    "GIT_COMMITTER_EMAIL": "committer@sim.invalid",
    "PYTHONDONTWRITEBYTECODE": "1",
    "XSIM_ENV": "1",
}

SHM = "/dev/shm" if os.path.isdir("/dev/shm") and os.access("/dev/shm", os.W_OK) else (
    os.environ.get("TMPDIR") or "/tmp"
)


def repo_path() -> str:
    return os.path.abspath(os.environ.get("XSIM_REPO", "/repo"))


def ensure(argv=None):
    """Re-exec once with the fixed environment (idempotent)."""
    hashseed = os.environ.get("XSIM_HASHSEED", "0")
    want = dict(FIXED)
    want["PYTHONHASHSEED"] = hashseed
    if os.environ.get("XSIM_ENV") != "1" or os.environ.get("PYTHONHASHSEED") != hashseed:
        env = dict(os.environ)
        env.update(want)
        env.pop("EMAIL", None)
        home = os.path.join(SHM, "xsim-home")
        os.makedirs(home, exist_ok=True)
        env["HOME"] = home
        env["XDG_CONFIG_HOME"] = os.path.join(home, ".config")
        args = [sys.executable, "-m", "xsim"] + list(sys.argv[1:] if argv is None else argv)
        os.execve(sys.executable, args, env)
    sys.dont_write_bytecode = True
    try:
        import time

        time.tzset()
    except Exception:
        pass
    rp = repo_path()
    if rp in sys.path:
        sys.path.remove(rp)
    sys.path.insert(0, rp)
    import xandikos  # noqa: F401

    got = os.path.dirname(os.path.dirname(os.path.abspath(xandikos.__file__)))
    if os.path.realpath(got) != os.path.realpath(rp):
        raise SystemExit(f"harness error: xandikos imported from {got}, wanted {rp}")
