"""Specs for the non-HIST engines."""

import json

from .check import Spec
from .specs import ddmin


class CrashSpec(Spec):
    engine = "E-CRASH"
    level = "fault_enumeration"
    quick_budget = 45
    thorough_budget = 540
    run_timeout = 300
    rule = ("seeded (back end in tree-git/bare-git/vdir, pre-history of 0-12 store operations incl. git gc, victim in create/replace/no-op/delete/"
            "metadata set+unset/get_ctag/iter_changes); dry run counts the victim's N fs mutation events; quick: 12 sampled crash points per victim, "
            "thorough: every k in 1..N plus a torn variant of every write event; after each crash image: fresh store objects, read-back oracle, "
            "git fsck --connectivity-only and an independent object walker. Non-trivial: crash images whose directory digest differs from both the "
            "pre- and the post-image; distinct by (back end, victim kind, event kind, event index, torn?)")
    assumptions = (
        "crash = process death: all completed syscalls survive (page cache), nothing else; power loss / fsync ordering is out of scope",
        "complete with respect to one victim operation in the thorough tier, sampled with respect to pre-states and victims",
        "three quarters of the runs use Store-API victims, one quarter HTTP victims (PUT/POST/DELETE/PROPPATCH through the WSGI callable or the aiohttp handler) judged through the client-side audit",
        "real git (fsck) is an outside observer that only reads the crash image",
    )

    def run(self, prop, seed, tier, tag):
        from . import world
        from .engines import crash

        world.install_seams()
        if seed % 4 == 3:
            return crash.CrashHttpRun(seed, tier, tag).run()
        return crash.CrashRun(seed, tier, tag).run()

    def replay(self, doc, tag):
        from . import world
        from .engines import crash

        world.install_seams()
        if doc.get("engine") == "crash-http":
            return crash.CrashHttpRun(doc.get("seed", 0), "thorough", tag, plan=doc["plan"]).run()
        return crash.CrashRun(doc.get("seed", 0), "thorough", tag, plan=doc["plan"]).run()

    def nontrivial_keys(self, res):
        return [json.dumps(k) for k in res.get("nontrivial_keys", [])]

    def sample(self, res):
        s = res.get("samples") or []
        return s[0] if s else None

    def collect(self, agg, res):
        agg.add_stats({"crash_images": res.get("images", 0), "victims_fully_enumerated": 1 if res.get("exhaustive_for_victim") else 0,
                       "skipped_runs": 1 if res.get("skipped") else 0})

    def essential(self, agg):
        if agg.stats.get("crash_images", 0) < 20:
            return "fewer than 20 crash images were produced"
        return None

    def extra_coverage(self, agg):
        return {"crash_images": agg.stats.get("crash_images", 0), "distinct_crash_points": len(agg.nontrivial)}

    def replay_doc(self, prop, v, res):
        return {"engine": res.get("engine", "crash"), "prop": prop, "seed": v.get("seed"), "plan": res["plan"],
                "expect": {"oracle": v["oracle"], "sig": v["sig"]}, "detail": v.get("detail"), "digest": None, "minimised": True}

    def minimise(self, prop, v, res, farm):
        want = (v["oracle"], json.dumps(v["sig"], sort_keys=True))
        plan = res["plan"]
        last = {}
        if res.get("engine") == "crash-http":
            d = self.replay_doc(prop, v, res)
            d["minimised"] = False
            return d

        def test_many(cands):
            docs = [{"prop": prop, "seed": v.get("seed"), "plan": dict(plan, pre=c)} for c in cands]
            outs = {}
            farm.map(self.replay, [(d, "min-C04-%d" % i) for i, d in enumerate(docs)], on_result=lambda i, a, o: outs.__setitem__(i, o))
            ret = []
            for i in range(len(docs)):
                o = outs.get(i, {})
                ok = False
                if o.get("ok"):
                    for x in o["result"].get("violations", []):
                        if (x["oracle"], json.dumps(x["sig"], sort_keys=True)) == want:
                            ok = True
                            last["v"] = x
                ret.append(ok)
            return ret

        # the crash point index is only meaningful for the same pre-history
        # shape, so only pre-history steps that do not change N are droppable;
        # ddmin finds them by trial.
        pre = ddmin(plan["pre"], test_many)
        if not test_many([pre])[0]:
            pre = plan["pre"]
        doc = self.replay_doc(prop, dict(v, detail=(last.get("v") or v)["detail"]), {"plan": dict(plan, pre=pre)})
        doc["original_pre_ops"] = len(plan["pre"])
        return doc


class SchedSpec(Spec):
    engine = "E-SCHED"
    level = "exploration"
    quick_budget = 50
    thorough_budget = 540
    run_timeout = 600
    rule = ("seeded (back end tree-git/bare-git, mode threads-sharing-one-store / processes-with-own-stores, pre-state of 1-3 members, 2-3 operations from "
            "conditional/unconditional puts on new/existing names with same/different UIDs and deletes); per operation set: every depth-1 pre-emption "
            "(node parked at its k-th yield point while the others run to completion; sampled in quick, measured coverage reported) plus PCT (d<=3) and "
            "random-walk schedules; yield points = every SimFS event and, in thread mode, every line of xandikos/store/*.py. Oracle: some sequential "
            "order of the same real code on a copy of the pre-state gives the same results and final contents. Non-trivial: schedules with >=1 context "
            "switch strictly inside an operation; distinct by interleaving signature (sequence of (node, yield label, next node))")
    assumptions = (
        "sampling of schedules; depth-1 pre-emptions are enumerated per operation set up to the budget, deeper ones only probabilistically (PCT)",
        "'processes' are independent store/Repo object graphs in one interpreter on one directory; OS-level effects (signals, NFS O_EXCL) are not modelled",
        "xandikos never blocks on a lock (contention raises), so parking a node is always legal",
    )

    def run(self, prop, seed, tier, tag):
        from . import world
        from .engines import sched

        world.install_seams()
        if seed % 5 == 1:
            from .engines import conc

            return conc.ConcRun("C05", conc.make_config("C05", seed, tier), tag=tag).run()
        return sched.SchedRun(seed, tier, tag).run()

    def replay(self, doc, tag):
        from . import world
        from .engines import sched

        world.install_seams()
        if doc.get("engine") == "conc":
            from .engines import conc

            return conc.ConcRun("C05", doc["cfg"], plan=doc["plan"], tag=tag).run()
        return sched.SchedRun(doc.get("seed", 0), "thorough", tag, plan=doc["plan"]).run()

    def nontrivial_keys(self, res):
        return res.get("signatures", [])

    def sample(self, res):
        s = res.get("samples") or []
        return s[0] if s else None

    def collect(self, agg, res):
        if res.get("engine") == "conc":
            agg.add_stats({"overlapping_http_request_runs": 1})
            return
        d = res.get("depth1") or [0, 0]
        agg.add_stats({"schedules": res.get("schedules", 0), "depth1_positions_run": d[0], "depth1_positions_total": d[1]})

    def essential(self, agg):
        if agg.stats.get("fault.preemption", 0) < 20:
            return "fewer than 20 context switches inside operations"
        return None

    def extra_coverage(self, agg):
        return {"schedules": agg.stats.get("schedules", 0), "distinct_interleavings": len(agg.nontrivial),
                "depth1_coverage": "%d of %d depth-1 pre-emption positions of the sampled operation sets" % (agg.stats.get("depth1_positions_run", 0), agg.stats.get("depth1_positions_total", 0))}

    def replay_doc(self, prop, v, res):
        if res.get("engine") == "conc":
            plan = dict(res["plan"], variants=[v["variant"]]) if v.get("variant") else res["plan"]
            return {"engine": "conc", "prop": prop, "seed": v.get("seed"), "cfg": res["cfg"], "plan": plan, "expect": {"oracle": v["oracle"], "sig": v["sig"]},
                    "detail": v.get("detail"), "digest": None, "minimised": False}
        plan = res["plan"]
        if v.get("schedule") is not None:
            plan = dict(plan, schedules=[v["schedule"]])
        return {"engine": "sched", "prop": prop, "seed": v.get("seed"), "plan": plan,
                "expect": {"oracle": v["oracle"], "sig": v["sig"]}, "detail": v.get("detail"), "digest": None, "minimised": True}

    def minimise(self, prop, v, res, farm):
        if res.get("engine") == "conc":
            return self.replay_doc(prop, v, res)
        want = (v["oracle"], json.dumps(v["sig"], sort_keys=True))
        plan = res["plan"]
        sc = v.get("schedule") or plan["schedules"][0]
        items = sorted(sc["switch"].items(), key=lambda kv: (kv[0].startswith("f"), int(kv[0].lstrip("f"))))

        def test_many(cands):
            docs = [{"prop": prop, "seed": v.get("seed"), "plan": dict(plan, schedules=[{"first": sc["first"], "switch": dict(c)}])} for c in cands]
            outs = {}
            farm.map(self.replay, [(d, "min-C05-%d" % i) for i, d in enumerate(docs)], on_result=lambda i, a, o: outs.__setitem__(i, o))
            ret = []
            for i in range(len(docs)):
                o = outs.get(i, {})
                ret.append(bool(o.get("ok") and any((x["oracle"], json.dumps(x["sig"], sort_keys=True)) == want for x in o["result"].get("violations", []))))
            return ret

        if not test_many([items])[0]:
            return None
        small = ddmin(items, test_many)
        doc = self.replay_doc(prop, v, {"plan": dict(plan, schedules=[{"first": sc["first"], "switch": dict(small)}])})
        doc["original_switches"] = len(items)
        return doc


class OpsSpec(Spec):
    """Shared by engines whose replay file is (cfg, ops)."""

    engine_mod = None
    run_cls = None

    def _mod(self):
        import importlib

        return importlib.import_module("xsim.engines." + self.engine_mod)

    def mk(self, cfg, ops, tag):
        return getattr(self._mod(), self.run_cls)(cfg, ops=ops, tag=tag)

    def run(self, prop, seed, tier, tag):
        from . import world

        world.install_seams()
        cfg = self._mod().make_config(seed, tier)
        return self.mk(cfg, None, tag).run()

    def replay(self, doc, tag):
        from . import world

        world.install_seams()
        return self.mk(doc["cfg"], doc["ops"], tag).run()

    def sample(self, res):
        s = res.get("samples") or []
        return s[0] if s else None

    def collect(self, agg, res):
        pass

    def replay_doc(self, prop, v, res):
        return {"engine": self.engine_mod, "prop": prop, "seed": v.get("seed"), "cfg": res["cfg"], "ops": res["ops"],
                "expect": {"oracle": v["oracle"], "sig": v["sig"]}, "detail": v.get("detail"), "digest": res.get("digest"), "minimised": True}

    def minimise(self, prop, v, res, farm):
        want = (v["oracle"], json.dumps(v["sig"], sort_keys=True))
        cfg = res["cfg"]
        last = {}

        def test_many(cands):
            docs = [{"prop": prop, "cfg": cfg, "ops": c} for c in cands]
            outs = {}
            farm.map(self.replay, [(d, "min-%s-%d" % (prop, i)) for i, d in enumerate(docs)], on_result=lambda i, a, o: outs.__setitem__(i, o))
            ret = []
            for i in range(len(docs)):
                o = outs.get(i, {})
                ok = False
                if o.get("ok"):
                    for x in o["result"].get("violations", []):
                        if (x["oracle"], json.dumps(x["sig"], sort_keys=True)) == want:
                            ok = True
                            last["r"] = (o["result"], x)
                ret.append(ok)
            return ret

        ops = ddmin(list(res["ops"]), test_many)
        if not test_many([ops])[0]:
            return None
        r, x = last["r"]
        doc = self.replay_doc(prop, dict(v, detail=x["detail"]), {"cfg": cfg, "ops": ops, "digest": r.get("digest")})
        doc["original_ops"] = len(res["ops"])
        return doc


class IndexSpec(OpsSpec):
    engine = "E-INDEX"
    engine_mod = "index"
    run_cls = "IndexRun"
    level = "exploration"
    quick_budget = 45
    thorough_budget = 480
    rule = ("seeded calendars (3-10 objects incl. several components of one type, objects lacking the filtered property, unparseable stored .ics files), "
            "a pool of 3-6 filters (comp / prop presence / is-not-defined / text-match / comp and prop time-range) repeated and interleaved past the "
            "index threshold (threshold in 0,1,2,5,50; paranoid mode in a quarter of the runs), writes, deletes, restarts and store-cache evictions in between; "
            "every REPORT is answered by the server and by a cold twin backend (threshold 10^9) on the same directory. Non-trivial: queries answered from the "
            "index after at least one write since the index was (re)built; counted per query")
    assumptions = ("the cold twin runs the same naive filter code: this check decides history-independence, not RFC conformance of the filters (C11)",
                   "sampling of histories and filters")

    def nontrivial_keys(self, res):
        return ["%s:%d" % (res.get("digest", "")[:12], i) for i in range(res.get("nontrivial", 0))]

    def essential(self, agg):
        if agg.stats.get("probe.index_path_taken", 0) < 5:
            return "the index path was taken fewer than 5 times"
        if agg.stats.get("probe.index_reset", 0) < 2:
            return "the index was never reset/extended"
        return None


class PathSpec(OpsSpec):
    engine = "E-PATH"
    engine_mod = "path"
    run_cls = "PathRun"
    level = "exploration"
    quick_budget = 40
    thorough_budget = 420
    rule = ("seeded request targets from an adversarial grammar (dot segments, %2e forms in both cases and mixed, encoded / and \\, doubled and leading //, "
            "over-long segments, escapes by exactly the depth of existing collections, hrefs inside multiget bodies) x every method that maps a URL to a path x "
            "both front ends x three prefixes, interleaved with ordinary writes; every fs event of the server during the request (SimFS seam + audit hook) is "
            "resolved and classified against the arena (root / tmp / decoys next to the root / system). Non-trivial: adversarial (method, target) pairs; distinct by digest")
    assumptions = ("the decisive dimension is the request target (an input); the simulator contributes the complete fs observation, the two real decoders and the dependence on fs state",
                   "the WSGI gateway stub does not normalise paths (real gateways may, which can only hide findings)")

    def nontrivial_keys(self, res):
        return res.get("nontrivial_keys", [])

    def essential(self, agg):
        if agg.stats.get("adversarial_requests", 0) < 50:
            return "fewer than 50 adversarial requests"
        if agg.stats.get("fs_events_observed", 0) < 500:
            return "fewer than 500 fs events observed"
        return None


class DiscoSpec(OpsSpec):
    engine = "E-DISCO"
    engine_mod = "disco"
    run_cls = "DiscoRun"
    level = "exploration"
    quick_budget = 40
    thorough_budget = 420
    rule = ("deployment layouts from the grid prefix in {/, /dav/, /a/b/} x principal in {/user/, /user, /users/alice/, /a/b/c} x {defaults, autocreate} x {aiohttp, wsgi} "
            "(48 layouts; sampled in quick, walked completely in thorough) x restart count 0-3 x entry via root or /.well-known/caldav|carddav; a client follows only "
            "returned hrefs root -> current-user-principal -> home sets -> Depth 1 -> typed collections; user data, display names and sync tokens written between "
            "restarts must be identical afterwards. Non-trivial: runs with >=1 restart and >=1 piece of user data verified; distinct by (layout, restarts, entry)")
    assumptions = ("the configuration grid is finite and covered in the thorough tier; user-data histories on top of it are seeded samples",
                   "WSGI start-up is the real module body of xandikos/wsgi.py driven by its environment variables")

    def run(self, prop, seed, tier, tag):
        from . import world
        from .engines import disco

        world.install_seams()
        try:
            idx = int(tag.rsplit("-", 1)[1])
        except (IndexError, ValueError):
            idx = None
        if seed % 9 == 4:
            # the same process serving two requests at once (worker threads): a collection is looked
            # at while it is being created
            return disco.ThreadedCreateRun(seed, tier, tag).run()
        return disco.DiscoRun(disco.make_config(seed, tier, idx), tag=tag).run()

    def mk(self, cfg, ops, tag):
        from .engines import disco

        if cfg.get("threads"):
            return disco.ThreadedCreateRun(cfg.get("seed", 0), "thorough", tag, plan={"ks": cfg["ks"]} if cfg.get("ks") else None)
        return disco.DiscoRun(cfg, ops=ops, tag=tag)

    def minimise(self, prop, v, res, farm):
        if (res.get("cfg") or {}).get("threads"):
            return self.replay_doc(prop, v, res)
        return self._minimise(prop, v, res, farm)

    def nontrivial_keys(self, res):
        lay = res.get("layout") or []
        if lay and lay[4] >= 1 and (res.get("stats") or {}).get("data_verified", 0) >= 1:
            return [json.dumps(lay)]
        return []

    def collect(self, agg, res):
        lay = res.get("layout") or []
        if lay:
            agg.extra.setdefault("layouts", set()).add(tuple(lay[:4]))
        agg.add_stats({"hrefs_followed": res.get("hops", 0)})

    def extra_coverage(self, agg):
        n = len(agg.extra.get("layouts", ()))
        return {"layouts_covered": n, "layouts_total": 48, "exhaustive": False,
                "grid_note": "the 48-layout grid is complete when layouts_covered == 48 (thorough tier walks it by run index); histories on top are sampled"}

    def essential(self, agg):
        if agg.stats.get("hrefs_followed", 0) < 50:
            return "fewer than 50 hrefs followed"
        return None

    def _minimise(self, prop, v, res, farm):
        want = (v["oracle"], json.dumps(v["sig"], sort_keys=True))
        cfg = dict(res["cfg"])

        def still(c):
            outs = {}
            farm.map(self.replay, [({"prop": prop, "cfg": c, "ops": []}, "min-C18")], on_result=lambda i, a, o: outs.__setitem__(i, o))
            o = outs.get(0, {})
            return bool(o.get("ok") and any((x["oracle"], json.dumps(x["sig"], sort_keys=True)) == want for x in o["result"].get("violations", []))), o

        for key, vals in (("restarts", [0, 1]), ("writes", [1]), ("entry", ["root"])):
            for val in vals:
                if cfg.get(key) == val:
                    break
                c2 = dict(cfg, **{key: val})
                ok, _ = still(c2)
                if ok:
                    cfg = c2
                    break
        ok, o = still(cfg)
        if not ok:
            return None
        x = [x for x in o["result"]["violations"] if (x["oracle"], json.dumps(x["sig"], sort_keys=True)) == want][0]
        return self.replay_doc(prop, dict(v, detail=x["detail"]), {"cfg": cfg, "ops": o["result"]["ops"], "digest": o["result"].get("digest")})


def spec_for(prop):
    if prop == "C18":
        return DiscoSpec()
    if prop == "C13":
        return PathSpec()
    if prop == "C10":
        return IndexSpec()
    if prop == "C04":
        return CrashSpec()
    if prop == "C05":
        return SchedSpec()
    raise KeyError(prop)
