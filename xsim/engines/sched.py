"""E-SCHED: seeded interleavings of concurrent store operations (C05).

Nodes are real Python threads that only ever run while holding the baton; the
scheduler decides at every yield point (each SimFS event, and - in thread mode
- each line of xandikos/store/*.py) who runs next.  The oracle is the same
real code executed sequentially in every order on copies of the pre-state.
"""

import gc
import hashlib
import itertools
import os
import random
import shutil
import sys
import threading

from .. import gen, icalparse
from ..rng import H
from ..simfs import FS
from ..world import Arena, rmtree_real
from .crash import close_store, create_store, open_store, read_state

TRACE_FILES = None


def trace_files():
    global TRACE_FILES
    if TRACE_FILES is None:
        import xandikos.store as xs

        d = os.path.dirname(os.path.abspath(xs.__file__))
        TRACE_FILES = {os.path.join(d, f) for f in ("git.py", "__init__.py", "index.py", "vdir.py")}
    return TRACE_FILES


class Deadlock(Exception):
    pass


class Scheduler:
    """Baton passing.  schedule: {"first": node, "switch": {str(step): node}}
    (explicit, for replay) or a strategy that fills it while running."""

    def __init__(self, n, strategy, rng, schedule=None):
        self.n = n
        self.sems = [threading.Semaphore(0) for _ in range(n)]
        self.main = threading.Semaphore(0)
        self.done = [False] * n
        self.started = [False] * n
        self.current = None
        self.step = 0
        self.steps_of = [0] * n
        self.ids = {}
        self.strategy = strategy
        self.rng = rng
        self.replay = schedule
        self.record = {"first": None, "switch": {}}
        self.switches_inside = 0
        self.signature = []
        self.prio = list(range(n))
        if strategy and strategy[0] == "pct":
            rng.shuffle(self.prio)
            self.change_points = set(strategy[2])
        self.limit = 200000

    # decision ---------------------------------------------------------------
    def runnable(self):
        return [i for i in range(self.n) if not self.done[i]]

    def decide(self, me, label):
        """Return the node that runs next (may be `me`)."""
        self.step += 1
        self.steps_of[me] += 1
        if self.step > self.limit:
            raise Deadlock("step limit")
        others = [i for i in self.runnable() if i != me]
        if not others:
            return me
        if self.replay is not None:
            nxt = self.replay["switch"].get(str(self.step))
            if nxt is None or self.done[nxt]:
                return me
            return nxt
        st = self.strategy
        if label == "sleep":
            # the code under test waits for somebody else: somebody else runs
            if st[0] in ("forced", "forced2") and st[1] in others:
                return st[1]
            if st[0] == "pct":
                return max(others, key=lambda i: self.prio[i])
            return self.rng.choice(others) if self.rng is not None else others[0]
        if st[0] == "rw":
            if self.rng.random() < st[1]:
                return self.rng.choice(others)
            return me
        if st[0] == "pct":
            if self.step in self.change_points:
                # demote the running node below everyone
                self.prio[me] = min(self.prio) - 1
            best = max(self.runnable(), key=lambda i: self.prio[i])
            return best
        if st[0] == "forced":
            # ("forced", victim, at_step_of_victim, then_order)
            if me == st[1] and self.steps_of[me] == st[2]:
                return st[3][0] if st[3][0] in others else others[0]
            return me
        if st[0] == "forced2":
            # ("forced2", a, k, b): a is parked at its k-th yield, b runs its first request, a then
            # finishes, and only then b issues its second request
            if me == st[1] and self.steps_of[me] == st[2]:
                return st[3] if st[3] in others else me
            if me == st[3] and label == "step-boundary":
                return st[1] if st[1] in others else me
            return me
        return me

    def on_finish_pick(self):
        r = self.runnable()
        if not r:
            return None
        if self.replay is not None:
            nxt = self.replay["switch"].get("f%d" % self.step)
            if nxt is not None and nxt in r:
                return nxt
            return r[0]
        st = self.strategy
        if st[0] == "forced":
            for i in st[3]:
                if i in r:
                    return i
            return r[0]
        if st[0] == "forced2":
            for i in (st[3], st[1]):
                if i in r:
                    return i
            return r[0]
        if st[0] == "pct":
            return max(r, key=lambda i: self.prio[i])
        return self.rng.choice(r)

    # mechanics ----------------------------------------------------------------
    def yield_point(self, label):
        me = self.ids.get(threading.get_ident())
        if me is None or self.current != me:
            return
        nxt = self.decide(me, label)
        if nxt != me:
            self.record["switch"][str(self.step)] = nxt
            self.switches_inside += 1
            self.signature.append((me, label, nxt))
            self.current = nxt
            self.sems[nxt].release()
            if not self.sems[me].acquire(timeout=60):
                raise Deadlock("node %d never resumed" % me)

    def node_main(self, i, fn, results):
        self.ids[threading.get_ident()] = i
        if not self.sems[i].acquire(timeout=60):
            return
        self.started[i] = True
        try:
            try:
                results[i] = ("ok", fn())
            except BaseException as e:  # noqa: BLE001 - outcome of the operation
                results[i] = ("exc", e)
        finally:
            self.done[i] = True
            nxt = self.on_finish_pick()
            if nxt is None:
                self.current = None
                self.main.release()
            else:
                self.record["switch"]["f%d" % self.step] = nxt
                self.current = nxt
                self.sems[nxt].release()

    def run(self, fns, first, tracer=None):
        results = [None] * self.n
        threads = []
        for i, fn in enumerate(fns):
            t = threading.Thread(target=self._boot, args=(i, fn, results, tracer), daemon=True)
            threads.append(t)
        for t in threads:
            t.start()
        if self.replay is not None:
            first = self.replay.get("first", first)
        self.record["first"] = first
        self.current = first
        self.sems[first].release()
        if not self.main.acquire(timeout=120):
            raise Deadlock("scheduler stalled at step %d (current=%s done=%s)" % (self.step, self.current, self.done))
        for t in threads:
            t.join(timeout=5)
        return results

    def _boot(self, i, fn, results, tracer):
        if tracer is not None:
            sys.settrace(tracer)
        try:
            self.node_main(i, fn, results)
        finally:
            if tracer is not None:
                sys.settrace(None)


def make_tracer(sched):
    files = trace_files()

    def local(frame, event, arg):
        if event == "line":
            sched.yield_point("L%s:%d" % (os.path.basename(frame.f_code.co_filename), frame.f_lineno))
        return local

    def tracer(frame, event, arg):
        if event == "call" and frame.f_code.co_filename in files:
            return local
        return None

    return tracer


# ------------------------------------------------------------------------------
def res_class(r):
    if r is None:
        return ("none",)
    if r[0] == "ok":
        v = r[1]
        if isinstance(v, tuple) and v and v[0] == "seq":
            return ("seq", res_class(v[1]), res_class(v[2]))
        if isinstance(v, tuple):
            return ("ok", v[1])
        return ("ok", None)
    return ("exc", type(r[1]).__name__)


class SchedRun:
    _sch = None
    _times = {}
    _busy = {}
    _cur_step = {}
    _slept = set()
    _node_counter = 0
    _lazy = []

    def __init__(self, seed, tier, tag, plan=None, prop="C05"):
        self.seed = seed
        self.tier = tier
        self.tag = tag
        self.plan = plan
        self.prop = prop
        self.violations = []
        self.stats = {}
        self.signatures = set()
        self.samples = []
        self.schedules = 0

    def count(self, k, n=1):
        self.stats[k] = self.stats.get(k, 0) + n

    def make_plan(self):
        r = random.Random(H("schedplan", self.seed))
        backend = r.choice(["tree", "bare"]) if self.prop == "C05" else "tree"
        mode = r.choice(["threads", "procs"])
        pre = []
        names = []
        for i in range(r.randint(1, 3)):
            nm = "m%d.ics" % i
            pre.append({"name": nm, "uid": "uid-%d" % i, "body": gen.ics(r, "uid-%d" % i, rich=0).decode("latin-1")})
            names.append(nm)
        nops = 2 if r.random() < 0.75 else 3
        ops = []
        shape = r.choice(["cond-cond", "cond-other", "same-uid-new", "mixed", "mixed", "delete-put"])
        for j in range(nops):
            if shape == "cond-cond":
                nm = names[0]
                ops.append({"op": "put", "name": nm, "uid": "uid-0", "cond": "current", "body": gen.ics(r, "uid-0", rich=0, summary="v%d" % j).decode("latin-1")})
            elif shape == "cond-other" and j == 0:
                ops.append({"op": "put", "name": names[0], "uid": "uid-0", "cond": "current", "body": gen.ics(r, "uid-0", rich=0, summary="upd").decode("latin-1")})
            elif shape == "cond-other":
                ops.append({"op": "put", "name": "new%d.ics" % j, "uid": "uid-new%d" % j, "cond": None, "body": gen.ics(r, "uid-new%d" % j, rich=0).decode("latin-1")})
            elif shape == "same-uid-new":
                ops.append({"op": "put", "name": "dup%d.ics" % j, "uid": "uid-shared", "cond": None, "body": gen.ics(r, "uid-shared", rich=0, summary="d%d" % j).decode("latin-1")})
            elif shape == "delete-put" and j == 0:
                ops.append({"op": "delete", "name": names[0], "cond": r.choice([None, "current"])})
            else:
                k = r.random()
                if k < 0.3:
                    nm = "new%d.ics" % j
                    uid = r.choice(["uid-new%d" % j, "uid-shared", "uid-0"])
                    ops.append({"op": "put", "name": nm, "uid": uid, "cond": None, "body": gen.ics(r, uid, rich=0).decode("latin-1")})
                elif k < 0.7:
                    i = r.randrange(len(names))
                    uid = "uid-%d" % i if r.random() < 0.8 else "uid-shared"
                    ops.append({"op": "put", "name": names[i], "uid": uid, "cond": r.choice([None, "current", "current"]), "body": gen.ics(r, uid, rich=0, summary="w%d" % j).decode("latin-1")})
                else:
                    ops.append({"op": "delete", "name": r.choice(names), "cond": r.choice([None, "current"])})
        plan = {"backend": backend, "mode": mode, "pre": pre, "ops": ops, "schedules": None}
        # a process may open its store only when its request arrives (first request of a
        # worker, restart overlapping the old process, store cache eviction)
        plan["lazy_open"] = mode == "procs" and r.random() < 0.5
        # a node may issue a second request after its first one (same handle, later in time)
        if r.random() < 0.45:
            j = r.randrange(len(ops))
            k = r.random()
            if k < 0.7:
                other_uids = [o["uid"] for i2, o in enumerate(ops) if i2 != j and o.get("uid")]
                uid = r.choice(other_uids) if (other_uids and r.random() < 0.6) else r.choice(["uid-shared", "uid-0", "uid-then"])
                ops[j]["then"] = {"op": "put", "name": "then%d.ics" % j, "uid": uid, "cond": None, "body": gen.ics(r, uid, rich=0, summary="then").decode("latin-1")}
            else:
                ops[j]["then"] = {"op": "delete", "name": r.choice(names), "cond": None}
        return plan

    def run(self):
        arena = Arena(self.tag)
        try:
            return self._run(arena)
        finally:
            FS.active = False
            FS.hook = None
            arena.destroy()

    # -------------------------------------------------------------------------
    def build_pre(self, plan, pre_dir):
        st = create_store(plan["backend"], pre_dir)
        for m in plan["pre"]:
            st.import_one(m["name"], "text/calendar", [m["body"].encode("latin-1")])
        state = read_state(st, plan["backend"])
        close_store(st)
        return state

    def single_fn(self, op, pre_state):
        etag = None
        if op.get("cond") == "current":
            e = pre_state["members"].get(op["name"])
            etag = e[0] if e else "0" * 40
        if op["op"] == "put":
            body = op["body"].encode("latin-1")
            return lambda st: st.import_one(op["name"], "text/calendar", [body], replace_etag=etag)
        return lambda st: st.delete_one(op["name"], etag=etag)

    def op_fn(self, st, op, pre_state, opener=None):
        """st: an opened store, or None with `opener` for lazy opening inside the node."""
        first = self.single_fn(op, pre_state)
        then = self.single_fn(op["then"], pre_state) if op.get("then") else None

        node = self._node_counter
        self._node_counter += 1
        times = self._times

        def now():
            sch = self._sch
            return sch.step if sch is not None else 0

        busy = self._busy

        def lock_busy_since(n0):
            me = threading.get_ident()
            return any(t == me and pth.endswith(".lock") for (t, pth) in FS.excl_busy[n0:])

        def run():
            t0 = now()
            n0 = len(FS.excl_busy)
            self._cur_step[node] = 0
            s = st if st is not None else opener()
            self._lazy.append(s) if st is None else None
            if then is None:
                try:
                    return first(s)
                finally:
                    times[(node, 0)] = (t0, now())
                    busy[(node, 0)] = lock_busy_since(n0)
            try:
                r1 = ("ok", first(s))
            except Exception as e:  # noqa: BLE001 - outcome of the first request
                r1 = ("exc", e)
            t1 = now()
            times[(node, 0)] = (t0, t1)
            busy[(node, 0)] = lock_busy_since(n0)
            if self._sch is not None:
                self._sch.yield_point("step-boundary")
                t1 = now()
            n0 = len(FS.excl_busy)
            self._cur_step[node] = 1
            try:
                r2 = ("ok", then(s))
            except Exception as e:  # noqa: BLE001
                r2 = ("exc", e)
            times[(node, 1)] = (t1, now())
            busy[(node, 1)] = lock_busy_since(n0)
            return ("seq", r1, r2)

        return run

    # A node issues one request or two in a row ("then"); a *step* is (node, k).
    @staticmethod
    def steps_of(plan):
        out = []
        for i, op in enumerate(plan["ops"]):
            out.append((i, 0, op))
            if op.get("then"):
                out.append((i, 1, op["then"]))
        return out

    @staticmethod
    def step_results(plan, got):
        """Flatten per-node results into {(node, k): result class}."""
        out = {}
        for i, op in enumerate(plan["ops"]):
            g = got[i]
            if op.get("then"):
                if g[0] == "seq":
                    out[(i, 0)], out[(i, 1)] = g[1], g[2]
                else:
                    out[(i, 0)] = out[(i, 1)] = g
            else:
                out[(i, 0)] = g
        return out

    def sequential(self, plan, pre_dir, pre_state, order, seq_dir):
        """Run the given steps one after another (order: tuple of (node, k))."""
        rmtree_real(seq_dir)
        shutil.copytree(pre_dir, seq_dir, symlinks=True)
        stores = {}
        res = {}
        for (i, k) in order:
            if plan["mode"] == "threads":
                st = stores.setdefault("shared", None) or stores.__setitem__("shared", open_store(plan["backend"], seq_dir)) or stores["shared"]
            else:
                st = stores.get(i)
                if st is None:
                    st = stores[i] = open_store(plan["backend"], seq_dir)
            op = plan["ops"][i] if k == 0 else plan["ops"][i]["then"]
            try:
                res[(i, k)] = ("ok", self.single_fn(op, pre_state)(st))
            except Exception as e:  # noqa: BLE001
                res[(i, k)] = ("exc", e)
        for st in stores.values():
            if st is not None:
                close_store(st)
        st = open_store(plan["backend"], seq_dir)
        try:
            final = read_state(st, plan["backend"])
        finally:
            close_store(st)
        return {sk: res_class(r) for sk, r in res.items()}, {n: d for n, (e, d) in final["members"].items()}

    def open_stores(self, plan, path):
        n = len(plan["ops"])
        if plan["mode"] == "threads":
            st = open_store(plan["backend"], path)
            return [st] * n
        return [open_store(plan["backend"], path) for _ in range(n)]

    def _run(self, arena):
        plan = self.plan or self.make_plan()
        pre_dir = os.path.join(arena.path, "pre")
        work = os.path.join(arena.path, "work")
        seq_dir = os.path.join(arena.path, "seq")
        FS.reset()
        pre_state = self.build_pre(plan, pre_dir)
        n = len(plan["ops"])
        self.count("mode." + plan["mode"])
        self.count("backend." + plan["backend"])
        seq_cache = {}

        def outcomes_for(subset):
            """All sequential executions of the given steps that keep each node's own order."""
            key = tuple(sorted(subset))
            if key not in seq_cache:
                outs = []
                for order in itertools.permutations(key):
                    pos = {sk: j for j, sk in enumerate(order)}
                    if any((i, 0) in pos and (i, 1) in pos and pos[(i, 0)] > pos[(i, 1)] for (i, _) in key):
                        continue
                    outs.append((order,) + self.sequential(plan, pre_dir, pre_state, order, seq_dir))
                seq_cache[key] = outs
            return seq_cache[key]

        # measure yield points per op with a dry run (op i alone, under trace)
        rng = random.Random(H("schedules", self.seed))
        schedules = plan.get("schedules")
        explicit = schedules is not None
        if not explicit:
            counts = self.measure(plan, pre_dir, pre_state, work)
            self.count("yield_points_total", sum(counts))
            budget = int(os.environ.get("XSIM_SCHED_BUDGET", "0")) or (24 if self.tier == "quick" else 400)
            cands = []
            # depth-1 pre-emptions: node a parked at its k-th yield, the others run to completion
            for a in range(n):
                others = [i for i in range(n) if i != a]
                for k in range(1, counts[a] + 1):
                    cands.append(("forced", a, k, others))
            self.depth1_total = len(cands)
            if len(cands) > budget // 2:
                forced = rng.sample(cands, budget // 2)
            else:
                forced = cands
            # with a two-request node: park a, let b's first request run, finish a, then b's second request
            cands2 = [("forced2", a, k, b) for b in range(n) if plan["ops"][b].get("then") for a in range(n) if a != b for k in range(1, counts[a] + 1)]
            if cands2:
                forced = forced[: max(1, len(forced) // 2)] + rng.sample(cands2, min(len(cands2), budget // 3))
            self.depth1_done = len(forced)
            strategies = list(forced)
            while len(strategies) < budget:
                if rng.random() < 0.5:
                    d = rng.randint(1, 3)
                    strategies.append(("pct", d, sorted(rng.sample(range(1, max(2, sum(counts)) + 1), min(d, max(1, sum(counts)))))))
                else:
                    strategies.append(("rw", rng.choice([0.05, 0.2, 0.5])))
            schedules = strategies
        seen_sigs = set()
        self.total_steps = 0
        step_cap = 120000 if self.tier == "quick" else 3000000
        for sc in schedules:
            if self.total_steps > step_cap:
                self.count("schedules_cut_by_step_cap")
                break
            nv = len(self.violations)
            rec = self.one_schedule(plan, pre_dir, pre_state, work, sc, explicit, outcomes_for, rng)
            if rec:
                # keep the first schedule of every distinct violation class and go on
                v = self.violations[-1]
                k = repr(sorted(v["sig"].items()))
                if k in seen_sigs:
                    del self.violations[nv:]
                else:
                    seen_sigs.add(k)
                    v["schedule"] = rec
        return self.result(plan)

    def measure(self, plan, pre_dir, pre_state, work):
        return [self._count_yields(plan, pre_dir, pre_state, work, i) for i in range(len(plan["ops"]))]

    def _count_yields(self, plan, pre_dir, pre_state, work, i):
        rmtree_real(work)
        shutil.copytree(pre_dir, work, symlinks=True)
        FS.reset()
        st = open_store(plan["backend"], work)
        c = [0]
        me = threading.get_ident()

        def hook(kind, paths, mut):
            if threading.get_ident() == me:
                c[0] += 1

        files = trace_files()

        def local(frame, event, arg):
            if event == "line":
                c[0] += 1
            return local

        def tracer(frame, event, arg):
            if event == "call" and frame.f_code.co_filename in files:
                return local
            return None

        FS.hook = hook
        FS.active = True
        if plan["mode"] == "threads":
            sys.settrace(tracer)
        try:
            try:
                self.op_fn(st, plan["ops"][i], pre_state)()
            except Exception:
                pass
        finally:
            sys.settrace(None)
            FS.active = False
            FS.hook = None
            close_store(st)
        return c[0]

    def one_schedule(self, plan, pre_dir, pre_state, work, sc, explicit, outcomes_for, rng):
        n = len(plan["ops"])
        rmtree_real(work)
        shutil.copytree(pre_dir, work, symlinks=True)
        FS.reset()
        self._lazy = []
        lazy = bool(plan.get("lazy_open")) and plan["mode"] == "procs"
        stores = [None] * n if lazy else self.open_stores(plan, work)
        if explicit:
            sch = Scheduler(n, None, None, schedule=sc)
            first = sc.get("first", 0)
        else:
            srng = random.Random(rng.getrandbits(64))
            sch = Scheduler(n, sc, srng)
            first = sc[1] if sc[0] in ("forced", "forced2") else (max(range(n), key=lambda i: sch.prio[i]) if sc[0] == "pct" else srng.randrange(n))
        destructive = {}

        def fs_hook(kind, paths, mut):
            if kind in ("unlink", "remove", "rename", "replace", "rmdir", "trunc"):
                me = sch.ids.get(threading.get_ident())
                if me is not None:
                    destructive.setdefault((me, self._cur_step.get(me, 0)), []).append((kind, os.path.basename(str(paths[0])) if paths else ""))
            sch.yield_point(kind)

        FS.hook = fs_hook
        FS.active = True
        # time.sleep() in the code under test takes no wall time here: the sleeper hands the
        # baton to another node (retry / back-off loops around locks)
        import time as _time

        real_sleep = _time.sleep
        self._slept = set()

        def sim_sleep(secs):
            me = sch.ids.get(threading.get_ident())
            if me is None:
                return real_sleep(secs)
            self._slept.add((me, self._cur_step.get(me, 0)))
            self.count("simulated_sleeps")
            sch.yield_point("sleep")

        _time.sleep = sim_sleep
        tracer = make_tracer(sch) if plan["mode"] == "threads" else None
        self._sch = sch
        self._times = {}
        self._busy = {}
        self._cur_step = {}
        self._node_counter = 0
        fns = [self.op_fn(stores[i], plan["ops"][i], pre_state, opener=lambda: open_store(plan["backend"], work)) for i in range(n)]
        try:
            results = sch.run(fns, first, tracer)
        finally:
            FS.active = False
            FS.hook = None
            _time.sleep = real_sleep
        # steps during which an exclusive create of a *.lock file failed at least once
        lock_busy = {sk for sk, b in self._busy.items() if b}
        for st in {id(s): s for s in list(stores) + list(self._lazy) if s is not None}.values():
            close_store(st)
        del stores
        self._lazy = []
        gc.collect()
        self.schedules += 1
        self.total_steps = getattr(self, "total_steps", 0) + sch.step
        self.count("yield_steps", sch.step)
        self.count("schedules." + (sc[0] if not explicit else "explicit"))
        self.count("fault.preemption", sch.switches_inside)
        sig = tuple((a, lab, b) for a, lab, b in sch.signature)
        if sch.switches_inside:
            self.signatures.add(hashlib.sha1(repr((plan["backend"], plan["mode"], [o["op"] for o in plan["ops"]], sig)).encode()).hexdigest()[:16])
        got = {i: res_class(results[i]) for i in range(n)}
        label = dict(backend=plan["backend"], mode=plan["mode"])
        recorded = dict(sch.record)
        if os.environ.get("XSIM_TRACE_EXC"):
            import traceback

            for i in range(n):
                if results[i] and results[i][0] == "exc" and got[i][1] not in ("LockedError", "InvalidETag", "DuplicateUidError", "NoSuchItem"):
                    traceback.print_exception(type(results[i][1]), results[i][1], results[i][1].__traceback__, limit=-10)
        if self.prop == "C09":
            return self.git_view(plan, work, got, sch, recorded)

        waited_ok = []

        def viol(cls, detail, overlapping=None):
            sg = dict(label, oracle="C05." + cls)
            if overlapping is not None:
                sg["overlapping"] = overlapping
            # some acknowledged request had found the lock held by somebody else (and went on
            # instead of being refused)
            sg["acknowledged_after_lock_busy"] = bool(waited_ok)
            self.violations.append({"prop": "C05", "oracle": "C05." + cls, "sig": sg, "step": None,
                                    "detail": ("%s | ops=%s lazy_open=%s results=%s switches=%s" % (detail, [(o["op"], o["name"], o.get("cond"), ("then", o["then"]["op"], o["then"]["name"]) if o.get("then") else None) for o in plan["ops"]],
                                                                                             bool(plan.get("lazy_open")), got, sch.signature[:6]))[:900]})
            return recorded

        # final state
        try:
            st = open_store(plan["backend"], work)
            try:
                final_state = read_state(st, plan["backend"])
            finally:
                close_store(st)
        except Exception as e:
            return viol("final-state-unreadable", "%s: %r" % (type(e).__name__, e))
        final = {nm: d for nm, (e, d) in final_state["members"].items()}
        steps = self.steps_of(plan)
        sres = self.step_results(plan, got)
        opof = {(i, k): op for (i, k, op) in steps}
        locked = [sk for sk in sres if sres[sk] == ("exc", "LockedError")]
        if locked:
            self.count("locked_refusals", len(locked))
        weird = [sk for sk in sres if sres[sk][0] == "exc" and sres[sk][1] not in ("LockedError", "InvalidETag", "DuplicateUidError", "NoSuchItem")]
        if weird:
            self.count("unexpected_exceptions", len(weird))
        live = [sk for sk in sorted(sres) if sk not in locked and sk not in weird]
        waited_ok.extend(sorted(sk for sk in lock_busy | self._slept if sk in sres and sres[sk][0] == "ok"))
        if waited_ok:
            self.count("acknowledged_after_lock_busy", len(waited_ok))
        times = dict(self._times)

        def before(x, y):
            """x had completed (strictly) before y started: every sequential explanation must keep that order."""
            return x in times and y in times and times[x][1] <= times[y][0] and x != y

        def respects_real_time(order):
            pos = {sk: j for j, sk in enumerate(order)}
            return not any(before(y, x) for x in order for y in order if pos[x] < pos[y])

        match = None
        for order, res, fin in outcomes_for(live):
            if respects_real_time(order) and all(res[sk] == sres[sk] for sk in live) and fin == final:
                match = order
                break
        if len(self.samples) < 2 and sch.switches_inside:
            self.samples.append({"backend": plan["backend"], "mode": plan["mode"], "lazy_open": bool(plan.get("lazy_open")),
                                 "ops": [(o["op"], o["name"], o.get("cond"), o.get("uid"), ("then", o["then"]["op"], o["then"]["name"]) if o.get("then") else None) for o in plan["ops"]],
                                 "strategy": sc if not explicit else "explicit", "context_switches": [list(x) for x in sch.signature[:8]], "results": {str(k): list(v) for k, v in got.items()},
                                 "equals_sequential_order": [list(x) for x in match] if match else None})
        if weird:
            (i, k) = weird[0]
            name = sres[(i, k)][1]
            # an operation that is neither acknowledged nor refused as locked
            self.violations.append({"prop": "C05", "oracle": "C05.unexpected-exception", "sig": dict(label, oracle="C05.unexpected-exception", exc=name), "step": None,
                                    "detail": ("node %d step %d %s raised %s | results=%s switches=%s" % (i, k, (opof[(i, k)]["op"], opof[(i, k)]["name"]), name, got, sch.signature[:6]))[:900]})
            return recorded
        # a request refused as locked is a request that did nothing: it removed, renamed or truncated no file
        for sk in locked:
            if destructive.get(sk):
                kinds = sorted({k for k, _ in destructive[sk]})
                self.violations.append({"prop": "C05", "oracle": "C05.refused-request-changed-files", "sig": dict(label, oracle="C05.refused-request-changed-files", events=",".join(kinds)), "step": None,
                                        "detail": ("node %d step %d %s was refused (LockedError) after %s | results=%s switches=%s" % (sk[0], sk[1], (opof[sk]["op"], opof[sk]["name"]), destructive[sk][:4], got, sch.signature[:6]))[:900]})
                return recorded
        if match is not None:
            return None
        # the etag a write is acknowledged with names the content that write stored (content-addressed: the
        # same request is acknowledged with the same etag in every sequential order in which it succeeds)
        for sk in live:
            if sres[sk][0] == "ok" and opof[sk]["op"] == "put":
                own = {res[sk][1] for (order, res, fin) in outcomes_for(live) if res[sk][0] == "ok"}
                if own and sres[sk][1] not in own:
                    return viol("acknowledged-etag-not-of-own-content", "put of %s acknowledged with etag %s; executed alone or in any order it is acknowledged with %s" % (opof[sk]["name"], sres[sk][1], sorted(own)))
        # classify
        from .crash import git_blob_id

        oks = [sk for sk in live if sres[sk][0] == "ok"]
        named = {op["name"] for (_, _, op) in steps}
        for nm, (e, d) in pre_state["members"].items():
            if nm not in named and final.get(nm) != d:
                return viol("untouched-member-changed", "member %s, which no operation names, changed or disappeared" % nm)
        for nm in final:
            if nm not in named and nm not in pre_state["members"]:
                return viol("untouched-member-changed", "member %s appeared from nowhere" % nm)
        # can the final contents be explained by the acknowledged operations
        # applied in some order with every check (etag, uid, existence) ignored?
        final_etags = {nm: git_blob_id(d) for nm, d in final.items()}
        pre_etags = {nm: e for nm, (e, d) in pre_state["members"].items()}
        explained = False
        for order in itertools.permutations(oks):
            pos = {sk: j for j, sk in enumerate(order)}
            if any((i, 0) in pos and (i, 1) in pos and pos[(i, 0)] > pos[(i, 1)] for (i, _) in oks):
                continue
            cur = dict(pre_etags)
            for sk in order:
                if opof[sk]["op"] == "put":
                    cur[opof[sk]["name"]] = sres[sk][1]
                else:
                    cur.pop(opof[sk]["name"], None)
            if cur == final_etags:
                explained = True
                break
        if explained:
            def concurrent(x, y):
                return not before(x, y) and not before(y, x)

            conds = [sk for sk in oks if opof[sk].get("cond") == "current" and opof[sk]["op"] == "put"]
            for a, b in itertools.combinations(conds, 2):
                if opof[a]["name"] == opof[b]["name"]:
                    # overlapping: the two overlap each other, or a third acknowledged write overlaps one
                    # of them (on a store without serialisation that write can put the old version back)
                    ov = concurrent(a, b) or any(concurrent(x, a) or concurrent(x, b) for x in oks if x not in (a, b))
                    return viol("both-conditional-succeed", "two conditional updates of %s against the same etag both succeeded" % opof[a]["name"], overlapping=ov)
            uids = {}
            overlapping_dup = False
            for nm, d in sorted(final.items()):
                u = icalparse.first_uid(d)
                if u is not None and u in uids:
                    # Which acknowledged writes produced the two holders?  If they did not overlap in
                    # time, the check-before-lock race cannot explain the duplicate.
                    wa = [sk for sk in oks if opof[sk]["op"] == "put" and opof[sk]["name"] == uids[u]]
                    wb = [sk for sk in oks if opof[sk]["op"] == "put" and opof[sk]["name"] == nm]
                    ov = any(concurrent(x, y) for x in wa for y in wb) if (wa and wb) else True
                    return viol("duplicate-uid", "%s and %s share UID %s%s" % (uids[u], nm, u, "" if ov else " although the two writes did not overlap in time"), overlapping=ov)
                uids[u] = nm
            ov = any(concurrent(x, y) for x, y in itertools.combinations(live, 2))
            return viol("stale-check", "every acknowledged write is present, but some etag/UID/existence check was decided on a state another operation had already changed", overlapping=ov)
        for sk in oks:
            op = opof[sk]
            others = [x for x in oks if x != sk and opof[x]["name"] == op["name"]]
            if op["op"] == "put" and not others:
                if final_etags.get(op["name"]) != sres[sk][1]:
                    return viol("lost-acknowledged-write", "acknowledged write of %s is missing or reverted although no other acknowledged operation wrote it" % op["name"])
            if op["op"] == "delete" and not others:
                if op["name"] in final:
                    return viol("lost-acknowledged-write", "acknowledged delete of %s was undone" % op["name"])
        return viol("not-serializable", "no sequential order of %s gives these results and final contents %s" % (live, sorted(final)))

    def git_view(self, plan, work, got, sch, recorded):
        """C09 under concurrency: working tree, index and HEAD agree after
        every request, whatever the interleaving and whoever was refused."""
        import subprocess

        env = dict(os.environ)
        env["GIT_CONFIG_GLOBAL"] = "/dev/null"
        p = subprocess.run(["git", "-c", "safe.directory=*", "-c", "core.quotepath=false", "status", "--porcelain"], cwd=work, env=env, capture_output=True, timeout=60)
        lines = [l for l in p.stdout.decode("utf-8", "replace").splitlines() if not l.rstrip().endswith("index.lock")]
        self.count("git.status")
        flat = []
        for g in got.values():
            flat += [g[1], g[2]] if g[0] == "seq" else [g]
        weird = ",".join(sorted({g[1] for g in flat if g[0] == "exc" and g[1] not in ("LockedError", "InvalidETag", "DuplicateUidError", "NoSuchItem")}))
        if p.returncode != 0 or lines:
            self.violations.append({"prop": "C09", "oracle": "C09.status-not-clean-after-overlapping-requests",
                                    "sig": {"oracle": "C09.status-not-clean-after-overlapping-requests", "mode": plan["mode"], "exceptions": weird}, "step": None,
                                    "detail": ("git status: %s | ops=%s results=%s switches=%s" % (lines[:4] or p.stderr[:200], [(o["op"], o["name"], o.get("cond")) for o in plan["ops"]], got, sch.signature[:6]))[:900]})
            return recorded
        p = subprocess.run(["git", "-c", "safe.directory=*", "fsck", "--strict", "--no-dangling"], cwd=work, env=env, capture_output=True, timeout=60)
        out = (p.stdout + p.stderr).decode("utf-8", "replace")
        bad = [l for l in out.splitlines() if l.startswith(("error", "missing", "broken", "fatal", "bad"))]
        if p.returncode != 0 or bad:
            self.violations.append({"prop": "C09", "oracle": "C09.fsck-after-overlapping-requests", "sig": {"oracle": "C09.fsck-after-overlapping-requests", "mode": plan["mode"]}, "step": None,
                                    "detail": ("git fsck: %s | ops=%s switches=%s" % (bad[:3] or out[:200], [(o["op"], o["name"]) for o in plan["ops"]], sch.signature[:6]))[:900]})
            return recorded
        return None

    def result(self, plan):
        return {
            "violations": self.violations[:12],
            "engine": "sched",
            "plan": plan,
            "stats": self.stats,
            "signatures": sorted(self.signatures),
            "schedules": self.schedules,
            "samples": self.samples,
            "depth1": [getattr(self, "depth1_done", 0), getattr(self, "depth1_total", 0)],
            "digest": hashlib.sha256(repr((sorted(self.stats.items()), sorted(self.signatures), [v["oracle"] for v in self.violations])).encode()).hexdigest(),
            "world": {"virtual_s": 0.0, "nreq": 0},
            "fs": {"bypass": len(FS.bypass), "bypass_sample": FS.bypass[:3]},
        }
