#!/usr/bin/env python3
"""Rewrite the table at the end of DESIGN.md (section 11) from /verif/seeded/*/meta.json."""
import glob, json, os
HERE = os.path.dirname(os.path.dirname(os.path.abspath(__file__)))
rows = []
for mp in sorted(glob.glob(os.path.join(HERE, "seeded", "*", "meta.json"))):
    m = json.load(open(mp))
    if not m.get("valid"):
        continue
    notes = ""
    np_ = os.path.join(os.path.dirname(mp), "notes.md")
    if os.path.exists(np_):
        for line in open(np_):
            line = line.strip().lstrip("#").strip()
            if line:
                notes = line[:110]
                break
    fired = []
    for p, c in sorted(m.get("checks", {}).items()):
        if c["exit"] == 1:
            orc = [l.split("oracle=")[1].split(" ")[0] for l in c.get("lines", []) if "oracle=" in l]
            fired.append("%s (%s)" % (p, ", ".join(sorted(set(orc))[:2])))
    missed = [p for p, c in sorted(m.get("checks", {}).items()) if c["exit"] == 0]
    fp = m.get("first_pass_caught_by")
    first = "-" if fp is None else ("yes" if fp else "no")
    rows.append("| `%s` | %s | %s | %s | %s |" % (m["id"], m["breaks_property"], first, "; ".join(fired) or "**not caught**", ", ".join(missed) or "-"))
table = ["| seeded change (`/verif/seeded/<id>/`) | written for | caught when first run | caught by quick check now (oracle) | quick checks that stayed green |", "|---|---|---|---|---|"] + rows
s = open(os.path.join(HERE, "DESIGN.md")).read()
marker = "<!-- seeded-table -->"
if marker in s:
    s = s[: s.index(marker)]
s = s.rstrip() + "\n\n" + marker + "\n" + "\n".join(table) + "\n"
open(os.path.join(HERE, "DESIGN.md"), "w").write(s)
print(len(rows), "rows")
