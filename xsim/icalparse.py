"""Independent content-line parser for iCalendar / vCard (RFC 5545 / 6350).

Used by oracles only; shares no code with xandikos or the icalendar library.
"""


class ParseError(Exception):
    pass


def unfold(data: bytes):
    text = data.decode("utf-8")
    text = text.replace("\r\n", "\n").replace("\r", "\n")
    lines = []
    for raw in text.split("\n"):
        if raw[:1] in (" ", "\t") and lines:
            lines[-1] += raw[1:]
        elif raw == "":
            continue
        else:
            lines.append(raw)
    return lines


def parse_line(line: str):
    """-> (NAME, params (sorted tuple of (NAME, value)), value)"""
    i = 0
    n = len(line)
    inq = False
    while i < n:
        c = line[i]
        if c == '"':
            inq = not inq
        elif c == ":" and not inq:
            break
        i += 1
    else:
        raise ParseError("no colon in content line %r" % line[:40])
    head, value = line[:i], line[i + 1:]
    parts = []
    cur = ""
    inq = False
    for c in head:
        if c == '"':
            inq = not inq
            cur += c
        elif c == ";" and not inq:
            parts.append(cur)
            cur = ""
        else:
            cur += c
    parts.append(cur)
    name = parts[0].upper()
    if not name or any(ch in name for ch in " \t"):
        raise ParseError("bad property name %r" % parts[0])
    params = []
    for p in parts[1:]:
        k, eq, v = p.partition("=")
        if len(v) >= 2 and v[0] == '"' and v[-1] == '"':
            v = v[1:-1]
        params.append((k.upper(), v))
    return name, tuple(sorted(params)), value


class Comp:
    __slots__ = ("name", "props", "children")

    def __init__(self, name):
        self.name = name
        self.props = []
        self.children = []

    def get(self, name):
        for n, p, v in self.props:
            if n == name:
                return v
        return None

    def walk(self):
        yield self
        for c in self.children:
            yield from c.walk()


def parse(data: bytes):
    """Parse into a list of top-level components.  Raises ParseError if the
    data is not a well-formed sequence of balanced components."""
    try:
        lines = unfold(data)
    except UnicodeDecodeError as e:
        raise ParseError("not utf-8: %s" % e)
    stack = []
    top = []
    for line in lines:
        name, params, value = parse_line(line)
        if name == "BEGIN":
            c = Comp(value.strip().upper())
            if stack:
                stack[-1].children.append(c)
            else:
                top.append(c)
            stack.append(c)
        elif name == "END":
            if not stack or stack[-1].name != value.strip().upper():
                raise ParseError("unbalanced END:%s" % value)
            stack.pop()
        else:
            if not stack:
                raise ParseError("property outside component: %r" % line[:40])
            stack[-1].props.append((name, params, value))
    if stack:
        raise ParseError("unterminated component %s" % stack[-1].name)
    if not top:
        raise ParseError("no component")
    return top


_SETLIKE = {"RRULE", "EXRULE"}


def _canon_value(name, value):
    if name in _SETLIKE:
        return ";".join(sorted(value.split(";")))
    return value


def canon(comp: Comp):
    props = sorted((n, p, _canon_value(n, v)) for (n, p, v) in comp.props)
    kids = sorted(canon(c) for c in comp.children)
    return (comp.name, tuple(props), tuple(kids))


def canon_all(data: bytes):
    return tuple(sorted(canon(c) for c in parse(data)))


def semantically_equal(a: bytes, b: bytes) -> bool:
    try:
        return canon_all(a) == canon_all(b)
    except ParseError:
        return False


def diff(a: bytes, b: bytes) -> str:
    try:
        ca, cb = canon_all(a), canon_all(b)
    except ParseError as e:
        return "parse error: %s" % e
    fa, fb = set(_flat(ca)), set(_flat(cb))
    return "only-in-a=%r only-in-b=%r" % (sorted(fa - fb)[:4], sorted(fb - fa)[:4])


def _flat(cs, prefix=""):
    for name, props, kids in cs:
        for p in props:
            yield (prefix + name,) + p
        yield from _flat(kids, prefix + name + "/")


def first_uid(data: bytes):
    """UID of the first sub-component of VCALENDAR that has one (the rule the
    property statement anchors on), or None."""
    try:
        top = parse(data)
    except ParseError:
        return None
    for t in top:
        if t.name == "VCALENDAR":
            for c in t.children:
                u = c.get("UID")
                if u is not None:
                    return unescape_text(u)
    return None


def unescape_text(v: str) -> str:
    out = []
    i = 0
    while i < len(v):
        c = v[i]
        if c == "\\" and i + 1 < len(v):
            d = v[i + 1]
            out.append("\n" if d in "nN" else d)
            i += 2
        else:
            out.append(c)
            i += 1
    return "".join(out)


def well_formed(data: bytes, kind: str):
    """None if `data` is a well-formed calendar ('ics') or card ('vcf'),
    else a reason string."""
    try:
        top = parse(data)
    except ParseError as e:
        return str(e)
    want = "VCALENDAR" if kind == "ics" else "VCARD"
    if not all(t.name == want for t in top):
        return "top-level component is %s" % ",".join(t.name for t in top)
    return None
