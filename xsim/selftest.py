"""Self-tests of the simulator: smoke (used as setup_cmd) and determinism."""

import json
import os
import subprocess
import sys

from . import rng
from .runner import Farm, cleanup_base

ALL = ["C01", "C02", "C03", "C04", "C05", "C06", "C07", "C08", "C09", "C10", "C13", "C14", "C15", "C16", "C17", "C18"]


def _digests(spec_for, props, n, jobs, tier="quick"):
    out = {}
    for prop in props:
        try:
            spec = spec_for(prop)
        except Exception:
            continue
        farm = Farm(jobs=jobs, timeout=spec.run_timeout)
        args = [(prop, rng.run_seed(4242, prop, tier, i), tier, "det-%s-%d" % (prop, i)) for i in range(n)]

        def on(i, a, o, prop=prop):
            if o.get("ok"):
                r = o["result"]
                out["%s/%d" % (prop, a[1])] = r.get("digest")
                out["hi:%s/%d" % (prop, a[1])] = r.get("digest_hi", r.get("digest"))
            else:
                out["%s/%d" % (prop, a[1])] = "ERROR " + o.get("error", "")[-300:]

        farm.map(spec.run, args, on_result=on)
    cleanup_base()
    return out


def main(args, spec_for):
    if args.what == "smoke":
        spec = spec_for("C01")
        farm = Farm(jobs=2, timeout=120)
        outs = []
        farm.map(spec.run, [("C01", 1, "quick", "smoke")], on_result=lambda i, a, o: outs.append(o))
        cleanup_base()
        o = outs[0]
        if not o.get("ok"):
            print("smoke failed:", o.get("error"))
            return 2
        r = o["result"]
        print("smoke ok: %d ops, %d requests, bypass=%d" % (len(r["ops"]), r["world"]["nreq"], r["fs"]["bypass"]))
        return 0
    props = [p for p in (args.props.split(",") if args.props else ALL) if p]
    if os.environ.get("XSIM_EMIT"):
        print("DIGESTS " + json.dumps(_digests(spec_for, props, args.n, 16)))
        return 0
    a = _digests(spec_for, props, args.n, 16)
    b = _digests(spec_for, props, args.n, 4)
    env = dict(os.environ)
    env["XSIM_HASHSEED"] = "12345"
    env["XSIM_EMIT"] = "1"
    env.pop("XSIM_ENV", None)
    env.pop("XSIM_BASE", None)
    p = subprocess.run([sys.executable, "-m", "xsim", "selftest", "determinism", "--props", ",".join(props), "--n", str(args.n)],
                       env=env, capture_output=True, text=True, cwd=os.path.dirname(os.path.dirname(os.path.abspath(__file__))))
    c = {}
    for line in p.stdout.splitlines():
        if line.startswith("DIGESTS "):
            c = json.loads(line[8:])
    bad = 0
    for k in sorted(a):
        if str(a[k]).startswith("ERROR"):
            print("run error", k, a[k])
            bad += 1
        if k.startswith("hi:"):
            if a[k] != c.get(k):
                print("NONDETERMINISTIC (PYTHONHASHSEED 0 vs 12345):", k, a[k], c.get(k))
                bad += 1
            continue
        if a[k] != b.get(k):
            print("NONDETERMINISTIC (same hash seed, 16 vs 4 workers):", k, a[k], b.get(k))
            bad += 1
    print("determinism: %d runs x 3 executions, %d mismatches" % (len(a), bad))
    if not c:
        print(p.stdout[-500:], p.stderr[-500:])
    return 0 if bad == 0 else 2
