#!/bin/bash
# usage: soak.sh <first_seed> <last_seed> [budget_s] [tier] [props...]
# Runs every claimed check for each VERIF_SEED and prints one line per run;
# anything that is not exit 0 is repeated with its VIOLATION / HARNESS lines.
first=$1; last=$2; budget=${3:-25}; tier=${4:-quick}; shift 4 2>/dev/null
props=${@:-C01 C02 C03 C04 C05 C06 C07 C08 C09 C10 C13 C14 C15 C16 C17 C18}
cd "$(dirname "$0")/.."
for s in $(seq $first $last); do
  for p in $props; do
    out=$(VERIF_SEED=$s /venv/bin/python -m xsim check $p --tier $tier --budget $budget 2>&1)
    rc=$?
    echo "seed=$s $p rc=$rc $(echo "$out" | tail -1)"
    if [ $rc -ne 0 ]; then echo "$out" | grep -E "^(VIOLATION|  oracle|HARNESS)" | head -8; fi
  done
done
