import json,sys
for f in sys.argv[1:]:
    d=json.load(open(f)); print("==",f, "minimised",d.get("minimised"), "orig",d.get("original_ops")); print(d["expect"]); print(d["detail"]); print({k:d["cfg"].get(k) for k in ("frontend","prefix","preseed","strict","index_threshold")})
    for o in d.get("ops",[]):
        o=dict(o); 
        if "body" in o: o["body"]=o["body"][:240]
        print("  ",o)
