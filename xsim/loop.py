"""SimEventLoop: virtual-time asyncio loop with an inline executor."""

import asyncio
from asyncio import base_events


class Deadlock(RuntimeError):
    pass


class _Selector:
    def __init__(self, loop):
        self._loop = loop

    def select(self, timeout):
        if timeout is None:
            raise Deadlock("event loop has nothing to run and no timer")
        if timeout > 0:
            self._loop._now += timeout
            self._loop.virtual_elapsed += timeout
        return []

    def close(self):
        pass


class SimEventLoop(base_events.BaseEventLoop):
    def __init__(self):
        super().__init__()
        self._now = 1000.0
        self.virtual_elapsed = 0.0
        self._selector = _Selector(self)
        self.executor_calls = 0
        self.baton = None

    def time(self):
        return self._now

    def _process_events(self, event_list):
        pass

    def _write_to_self(self):
        pass

    def _run_once(self):
        b = self.baton
        if b is not None:
            if self._ready and b.parked():
                b.main_tick(force=False)
            while not self._ready and b.parked():
                b.main_tick(force=True)
        super()._run_once()

    def run_in_executor(self, executor, func, *args):
        fut = self.create_future()
        self.executor_calls += 1
        if self.baton is not None:
            self.baton.submit(fut, func, args)
            return fut

        def run():
            if fut.cancelled():
                return
            try:
                r = func(*args)
            except BaseException as e:  # noqa: BLE001 - delivered to the awaiter
                fut.set_exception(e)
            else:
                fut.set_result(r)

        self.call_soon(run)
        return fut

    def close(self):
        if self.is_closed():
            return
        super().close()


def new_loop():
    loop = SimEventLoop()
    asyncio.set_event_loop(loop)
    return loop


class BatonExecutor:
    """Worker threads for run_in_executor that only run while holding the
    baton.  Yield points: every SimFS event inside a worker; every loop
    iteration of the main thread.  Decisions come from a seeded PRNG and are
    recorded (`trace`), or replayed from a recorded list."""

    def __init__(self, rng=None, p_switch=0.3, replay=None, burst_at=None, worker_burst_at=None):
        import threading

        self.threading = threading
        self.rng = rng
        self.p = p_switch
        self.replay = list(replay) if replay is not None else None
        # burst style (depth-1 pre-emption): the loop thread hands over at
        # its burst_at-th fs event and the worker then runs to completion
        self.burst_at = burst_at
        # worker-burst: a worker is parked at its worker_burst_at-th fs event and stays parked
        # until the loop thread has nothing left to do (the other request has been served)
        self.worker_burst_at = worker_burst_at
        self.worker_events = 0
        self.main_events = 0
        self.trace = []
        self.workers = []
        self.main_sem = threading.Semaphore(0)
        self.current = "main"
        self.by_ident = {}
        self.main_ident = threading.get_ident()
        self.switches = 0
        self.labels = []

    def parked(self):
        return [w for w in self.workers if not w["done"]]

    def decide(self, n_choices, label):
        """0 = stay / do not switch; 1.. = switch to that candidate."""
        if self.replay is not None:
            d = self.replay.pop(0) if self.replay else 0
            d = d if d <= n_choices else 0
        elif self.worker_burst_at is not None:
            if label.startswith("worker:"):
                self.worker_events += 1
                d = 1 if self.worker_events == self.worker_burst_at else 0
                if d:
                    self.worker_parked_at_burst = True
            elif label == "loop-idle":
                d = 1
            elif label == "loop-iteration":
                # start the worker as soon as it exists; once it is parked at its burst
                # point it stays parked until the loop has nothing left to do
                d = 0 if getattr(self, "worker_parked_at_burst", False) else 1
            else:
                d = 0
        elif self.burst_at is not None:
            if label.startswith("loop:"):
                self.main_events += 1
                d = 1 if self.main_events == self.burst_at else 0
            else:
                d = 0
        else:
            d = self.rng.randint(1, n_choices) if self.rng.random() < self.p else 0
        self.trace.append(d)
        if d:
            self.switches += 1
            if len(self.labels) < 12:
                self.labels.append(label)
        return d

    def submit(self, fut, func, args):
        w = {"sem": self.threading.Semaphore(0), "done": False, "fut": fut}

        def body():
            w["sem"].acquire()
            try:
                r = func(*args)
                ok = True
            except BaseException as e:  # noqa: BLE001 - delivered to the awaiter
                r = e
                ok = False
            w["done"] = True
            if not fut.cancelled():
                if ok:
                    fut.set_result(r)
                else:
                    fut.set_exception(r)
            self.current = "main"
            self.main_sem.release()

        t = self.threading.Thread(target=body, daemon=True)
        w["thread"] = t
        self.workers.append(w)
        t.start()
        self.by_ident[t.ident] = w

    def main_tick(self, force):
        cands = self.parked()
        if not cands:
            return
        if force:
            d = self.decide(len(cands), "loop-idle") or 1
            if self.trace and self.trace[-1] == 0:
                self.trace[-1] = d
        else:
            d = self.decide(len(cands), "loop-iteration")
            if not d:
                return
        w = cands[d - 1]
        self.current = w
        w["sem"].release()
        if not self.main_sem.acquire(timeout=60):
            raise Deadlock("worker never gave the baton back")

    def fs_yield(self, kind, paths, mut):
        w = self.by_ident.get(self.threading.get_ident())
        if w is None:
            # the event-loop thread itself: real worker threads run in
            # parallel with it, so a parked worker may proceed here
            if self.current == "main" and self.threading.get_ident() == self.main_ident:
                cands = self.parked()
                if cands:
                    d = self.decide(len(cands), "loop:" + kind)
                    if d:
                        ww = cands[d - 1]
                        self.current = ww
                        ww["sem"].release()
                        if not self.main_sem.acquire(timeout=60):
                            raise Deadlock("worker never gave the baton back")
            return
        if self.current is not w:
            return
        d = self.decide(1, "worker:" + kind)
        if d:
            self.current = "main"
            self.main_sem.release()
            if not w["sem"].acquire(timeout=60):
                raise Deadlock("worker never resumed")

    def drain(self):
        """Let every parked worker finish (end of run)."""
        for w in self.parked():
            self.current = w
            w["sem"].release()
            self.main_sem.acquire(timeout=60)
