"""Audit: read the real system through its public interface.

An `Obs` is what a client can see of one collection at one moment; oracles
compare observations with the acknowledgement-following model and with each
other (before/after a step, across a restart, across views).
"""

import hashlib
import urllib.parse
from xml.etree import ElementTree as ET

from . import dav

AUDIT_PROPS = [
    dav.P_GETETAG,
    dav.P_RESOURCETYPE,
    dav.P_CTYPE,
    dav.P_GETCTAG_DAV,
    dav.P_GETCTAG_CS,
    dav.P_SYNCTOKEN,
    dav.P_DISPLAYNAME,
    dav.P_COMMENT,
    dav.P_CAL_COLOR,
    dav.P_CAL_ORDER,
    dav.P_CAL_DESC,
    dav.P_AB_DESC,
    dav.P_AB_COLOR,
]
SETTABLE = [dav.P_DISPLAYNAME, dav.P_COMMENT, dav.P_CAL_COLOR, dav.P_CAL_ORDER, dav.P_AB_DESC, dav.P_AB_COLOR, dav.P_CAL_DESC]
_AUDIT_BODY = dav.propfind_body(AUDIT_PROPS)


def sha(b):
    return hashlib.sha1(b).hexdigest()[:16]


class Obs:
    """Observation of one collection."""

    def __init__(self, path):
        self.path = path
        self.status = None  # PROPFIND status
        self.exists = False
        self.rtypes = frozenset()
        self.members = {}  # name -> dict(etag, ctype, status, sha, body)
        self.subs = []  # sub-collection names
        self.dups = []  # hrefs listed more than once
        self.bad_hrefs = []  # hrefs that are not self or a direct child
        self.tags = {}  # ctag_dav, ctag_cs, sync, getetag
        self.props = {}  # tag -> (status, text)
        self.raw_hrefs = {}  # name -> raw href text as sent
        self.self_href = None
        self.problems = []

    @property
    def reliable(self):
        """False if the listing itself was inconsistent (mangled or repeated
        hrefs): content-based oracles of other properties skip it."""
        return self.exists and not (self.bad_hrefs or self.dups or self.problems)

    def fingerprint(self):
        """Everything the properties call 'state' of the collection."""
        return (
            self.exists,
            tuple(sorted((n, m.get("etag"), m.get("sha"), m.get("status")) for n, m in self.members.items())),
            tuple(sorted(self.subs)),
            tuple(sorted(self.tags.items())),
            tuple(sorted((k, v) for k, v in self.props.items())),
        )

    def member_state(self):
        return tuple(sorted((n, m.get("sha") or m.get("etag")) for n, m in self.members.items()))


def rel_of(world, raw_path):
    """Map a raw (percent-encoded) URL path to a server-relative path, or
    None if it is outside the route prefix."""
    p = urllib.parse.unquote(raw_path.split("?")[0])
    pre = world.prefix.rstrip("/")
    if pre and not (p == pre or p.startswith(pre + "/")):
        return None
    return p[len(pre):] or "/"


def observe_collection(world, path, get_bodies=True, depth="1"):
    o = Obs(path)
    tgt = world.target(path)
    r = world.req("PROPFIND", path, [("Depth", depth), dav.XML_CT], _AUDIT_BODY)
    o.status = r.status if r is not None else None
    if r is None or r.status != 207:
        return o
    try:
        resps, _ = dav.parse_multistatus(r.body)
    except (ET.ParseError, ValueError) as e:
        o.problems.append("unparseable multistatus: %s" % e)
        return o
    seen = set()
    for ms in resps:
        raw = dav.href_path(ms.href or "", tgt)
        rel = rel_of(world, raw)
        if rel is None:
            o.bad_hrefs.append(ms.href)
            continue
        if rel in seen:
            o.dups.append(ms.href)
            continue
        seen.add(rel)
        if rel.rstrip("/") == path.rstrip("/"):
            if ms.status == 404 or (ms.status is not None and ms.status >= 400):
                o.status = ms.status
                return o
            o.exists = True
            o.self_href = ms.href
            rt = ms.prop(dav.P_RESOURCETYPE)
            o.rtypes = frozenset(e.tag for e in rt) if rt is not None else frozenset()
            o.tags = {
                "ctag_dav": ms.text(dav.P_GETCTAG_DAV),
                "ctag_cs": ms.text(dav.P_GETCTAG_CS),
                "sync": ms.text(dav.P_SYNCTOKEN),
                "getetag": ms.text(dav.P_GETETAG),
            }
            for t in SETTABLE:
                st = ms.prop_status(t)
                e = ms.prop(t, None)
                o.props[t] = (st, (e.text or "") if (e is not None and st == 200) else None)
            continue
        base = path if path.endswith("/") else path + "/"
        if not rel.startswith(base):
            o.bad_hrefs.append(ms.href)
            continue
        name = rel[len(base):]
        rt = ms.prop(dav.P_RESOURCETYPE)
        is_coll = rt is not None and any(e.tag == dav.RT_COLLECTION for e in rt)
        is_princ = rt is not None and any(e.tag == dav.RT_PRINCIPAL for e in rt)
        if name.endswith("/") or is_coll or is_princ:
            n = name.rstrip("/")
            if "/" in n or not n:
                o.bad_hrefs.append(ms.href)
                continue
            o.subs.append(n)
            o.raw_hrefs[n + "/"] = ms.href
            if is_coll and not name.endswith("/"):
                o.problems.append("collection href without trailing slash: %s" % ms.href)
            continue
        if "/" in name or not name:
            o.bad_hrefs.append(ms.href)
            continue
        o.members[name] = {
            "etag": ms.text(dav.P_GETETAG),
            "ctype": ms.text(dav.P_CTYPE),
        }
        o.raw_hrefs[name] = ms.href
    if depth == "1" and get_bodies:
        base = path if path.endswith("/") else path + "/"
        for name, m in o.members.items():
            g = world.req("GET", base + name)
            m["status"] = g.status if g is not None else None
            if g is not None and g.status == 200:
                m["body"] = g.body
                m["sha"] = sha(g.body)
                m["get_etag"] = g.header("ETag")
                m["get_ctype"] = g.header("Content-Type")
    return o
