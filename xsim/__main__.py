"""CLI: python -m xsim check <id> --tier quick|thorough | replay <file> | selftest ..."""

import argparse
import os
import sys


def spec_for(prop):
    from . import specs

    if prop in specs.HIST_RULES:
        return specs.HistSpec(prop)
    from . import specs2

    return specs2.spec_for(prop)


def main(argv=None):
    from . import env

    env.ensure(argv)
    ap = argparse.ArgumentParser(prog="xsim")
    sub = ap.add_subparsers(dest="cmd", required=True)
    c = sub.add_parser("check")
    c.add_argument("prop")
    c.add_argument("--tier", default=os.environ.get("VERIF_TIER", "quick"), choices=["quick", "thorough"])
    c.add_argument("--budget", type=float, default=None)
    c.add_argument("--runs", type=int, default=None)
    c.add_argument("--seed", type=int, default=None)
    r = sub.add_parser("replay")
    r.add_argument("path")
    s = sub.add_parser("selftest")
    s.add_argument("what", choices=["determinism", "smoke"])
    s.add_argument("--props", default="")
    s.add_argument("--n", type=int, default=8)
    args = ap.parse_args(argv)

    from . import world

    world.install_seams()
    from . import check

    if args.cmd == "check":
        return check.run_check(args.prop, args.tier, spec_for(args.prop), budget=args.budget, max_runs=args.runs, verif_seed=args.seed)
    if args.cmd == "replay":
        return check.do_replay(args.path, spec_for)
    if args.cmd == "selftest":
        from . import selftest

        return selftest.main(args, spec_for)
    return 2


if __name__ == "__main__":
    sys.exit(main())
