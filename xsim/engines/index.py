"""E-INDEX: index transparency of calendar-query (C10).

The server under test answers each REPORT; right after it a *cold twin* - a
second backend/app on the same directory whose index threshold can never be
reached - answers the same REPORT.  Both must return the same resources.
"""

import hashlib
import io
import random
import urllib.parse
from xml.etree import ElementTree as ET

from .. import dav, gen
from ..observe import rel_of
from ..rng import H
from ..simclock import CLOCK
from ..simfs import FS
from ..world import Arena, World

CAL = "/user/calendars/calendar/"

WINDOWS = [("20200101T000000Z", "20200201T000000Z"), ("20200115T000000Z", "20200116T000000Z"), ("20200301T000000Z", "20200701T000000Z"),
           ("20200110T100000Z", "20200110T103000Z"), ("20191201T000000Z", "20200102T000000Z")]


def filter_pool(r):
    pool = [
        {"comp": "VEVENT"},
        {"comp": "VTODO"},
        {"comp": "VJOURNAL"},
        {"comp": "VTODO", "comp_absent": True},
        {"comp": "VEVENT", "prop": {"name": "LOCATION", "test": "present"}},
        {"comp": "VEVENT", "prop": {"name": "LOCATION", "test": "absent"}},
        {"comp": "VEVENT", "prop": {"name": "SUMMARY", "test": {"text": r.choice(["plain", "meeting", "caf", "x"])}}},
        {"comp": "VEVENT", "prop": {"name": "SUMMARY", "test": {"text": "plain", "negate": True}}},
        {"comp": "VTODO", "prop": {"name": "STATUS", "test": {"text": "COMPLETED"}}},
        {"comp": "VEVENT", "prop": {"name": "CATEGORIES", "test": {"text": "HOME"}}},
        {"comp": "VEVENT", "prop": {"name": "UID", "test": {"text": "obj-1"}}},
        {"comp": "VEVENT", "prop": {"name": "PRIORITY", "test": "present"}},
        {"comp": "VEVENT", "prop": {"name": "SEQUENCE", "test": "absent"}},
        {"comp": "VTODO", "prop": {"name": "PERCENT-COMPLETE", "test": "present"}},
        {"comp": "VEVENT", "prop": {"name": "PRIORITY", "test": {"text": "0"}}},
        {"comp": "VEVENT", "prop": {"name": "RRULE", "test": "present"}},
        {"comp": "VEVENT", "prop": {"name": "RRULE", "test": "absent"}},
    ]
    for w in r.sample(WINDOWS, 3):
        pool.append({"comp": "VEVENT", "time": list(w)})
    pool.append({"comp": "VTODO", "time": list(r.choice(WINDOWS))})
    pool.append({"comp": "VEVENT", "prop": {"name": "DTSTART", "test": {"time": list(r.choice(WINDOWS))}}})
    return r.sample(pool, r.randint(3, 6))


def filter_type(f):
    pt = (f.get("prop") or {}).get("test")
    if f.get("time"):
        return "comp-time-range"
    if isinstance(pt, dict) and "time" in pt:
        return "prop-time-range"
    if isinstance(pt, dict) and "text" in pt:
        return "text-match-negated" if pt.get("negate") else "text-match"
    if pt == "absent":
        return "prop-is-not-defined"
    if pt == "present":
        return "prop-present"
    if f.get("comp_absent"):
        return "comp-is-not-defined"
    return "comp"


def make_config(seed, tier):
    r = random.Random(H("idxcfg", seed))
    return {
        "seed": seed,
        "frontend": r.choice(["aiohttp", "wsgi"]),
        "prefix": r.choice(["/", "/dav/"]),
        "index_threshold": r.choice([0, 0, 1, 2, 5, None, 50]),
        "paranoid": r.random() < 0.25,
        "strict": True,
        "steps": r.randint(25, 50) if tier == "quick" else r.randint(40, 140),
        "autocreate": "defaults",
        "listing": True,
    }


def wsgi_call(app, method, path_info, headers, body):
    environ = {
        "REQUEST_METHOD": method, "SCRIPT_NAME": "", "PATH_INFO": path_info.encode("utf-8").decode("latin-1"), "QUERY_STRING": "",
        "SERVER_NAME": "sim", "SERVER_PORT": "80", "SERVER_PROTOCOL": "HTTP/1.1", "HTTP_HOST": "sim",
        "wsgi.version": (1, 0), "wsgi.url_scheme": "http", "wsgi.input": io.BytesIO(body), "wsgi.errors": io.StringIO(),
        "wsgi.multithread": False, "wsgi.multiprocess": True, "wsgi.run_once": False, "CONTENT_LENGTH": str(len(body)),
    }
    for k, v in headers:
        if k.lower() == "content-type":
            environ["CONTENT_TYPE"] = v
        else:
            environ["HTTP_" + k.upper().replace("-", "_")] = v
    out = {}

    def sr(status, hdrs, exc_info=None):
        out["status"] = int(status.split(" ", 1)[0])

    try:
        data = b"".join(app(environ, sr))
    except Exception as e:  # noqa: BLE001 - a gateway would answer 500
        return 500, repr(e).encode()
    return out["status"], data


class IndexRun:
    def __init__(self, cfg, ops=None, tag="idx"):
        self.cfg = cfg
        self.replay_ops = ops
        self.ops = []
        self.tag = tag
        self.violations = []
        self.stats = {}
        self.rng = random.Random(H("idxwork", cfg["seed"]))
        self.members = {}
        self.fresh = 0
        self.writes_since_index = 0
        self.filter_uses = {}  # since the last restart / eviction
        self.nontrivial = 0
        self.digest = hashlib.sha256()
        self.samples = []

    def count(self, k, n=1):
        self.stats[k] = self.stats.get(k, 0) + n

    def install_probes(self):
        import xandikos.store as xs
        import xandikos.store.index as xi

        run = self
        if not hasattr(xs.Store, "_xsim_orig_idx"):
            xs.Store._xsim_orig_idx = xs.Store._iter_with_filter_indexes
            xi.MemoryIndex._xsim_orig_reset = xi.MemoryIndex.reset
            xi.MemoryIndex._xsim_orig_add = xi.MemoryIndex.add_values
        orig_idx, orig_reset, orig_add = xs.Store._xsim_orig_idx, xi.MemoryIndex._xsim_orig_reset, xi.MemoryIndex._xsim_orig_add

        def idx(self_, filter, keys):
            run.count("probe.index_path_taken")
            run.index_used = True
            return orig_idx(self_, filter, keys)

        def reset(self_, keys):
            run.count("probe.index_reset")
            run.writes_since_index = 0
            return orig_reset(self_, keys)

        def add(self_, name, etag, values):
            run.count("probe.index_values_added")
            return orig_add(self_, name, etag, values)

        xs.Store._iter_with_filter_indexes = idx
        xi.MemoryIndex.reset = reset
        xi.MemoryIndex.add_values = add

    def make_twin(self):
        from xandikos.web import XandikosApp, XandikosBackend

        b = XandikosBackend(self.arena.root, index_threshold=10 ** 9)
        b._mark_as_principal("/user/")
        return XandikosApp(b, current_user_principal="/user/", strict=True)

    def body_new(self):
        r = self.rng
        self.fresh += 1
        k = r.random()
        uid = "obj-%d" % self.fresh
        if k < 0.12:
            return b"this is not a calendar\n", "application/octet-stream"
        if k < 0.3:
            # several components of the same type in one object
            n = r.randint(2, 3)
            comp = r.choice(["VEVENT", "VEVENT", "VTODO"])
            lines = ["BEGIN:VCALENDAR", "VERSION:2.0", "PRODID:-//xsim//gen//EN"]
            for j in range(n):
                c = gen.component(r, comp, uid, r.choice([0, 1]))
                if j > 0:
                    c.insert(2, "RECURRENCE-ID:2020%02d%02dT100000Z" % (r.randint(1, 6), r.randint(1, 28)))
                lines += c
            lines.append("END:VCALENDAR")
            return ("\r\n".join(lines) + "\r\n").encode("utf-8"), "text/calendar"
        return gen.ics(r, uid, rich=r.choice([0, 1, 2])), "text/calendar"

    def gen_op(self):
        r = self.rng
        k = r.random()
        if k < 0.68 or not self.members:
            if not self.members and k >= 0.68:
                pass
            else:
                if k < 0.07 and len(self.members) >= 2:
                    # a query that is still being evaluated (its lazily produced result partly
                    # consumed, as in a threaded deployment) while other queries are answered
                    a = r.choice(self.pool)
                    # B: the filter used least so far (its keys are the likeliest to be new to the
                    # index), asked just often enough to push them over the threshold, or at random
                    uses = self.filter_uses
                    others = [f for f in self.pool if f != a] or self.pool
                    least = min(uses.get(repr(f), 0) for f in others)
                    b = r.choice([f for f in others if uses.get(repr(f), 0) == least])
                    thr = self.cfg["index_threshold"]
                    thr = 5 if thr is None else thr
                    reps = max(1, thr + 1 - least) if r.random() < 0.6 else r.choice([1, 2, 3, 6])
                    op = {"op": "query_overlap", "a": a, "b": b, "take": r.randint(1, 3), "reps": min(reps, 8)}
                    if r.random() < 0.4:
                        op["write"] = r.randint(1, 999)
                        op["reps"] = r.choice([0, 0, 1])
                    return op
                return {"op": "query", "filter": r.choice(self.pool)}
        if k < 0.71 and self.members:
            # a report that renders members (expansion of recurrences, partial retrieval): rendering is not writing
            return {"op": "render", "mode": r.choice(["expand", "expand", "comp"])}
        if k < 0.8 or not self.members:
            self.fresh += 0
            name = "o%d.ics" % (len(self.members) + self.fresh)
            body, ct = self.body_new()
            return {"op": "put", "name": name, "body": body.decode("latin-1"), "ctype": ct}
        if k < 0.88:
            name = r.choice(sorted(self.members))
            body, ct = self.body_new()
            if ct != "text/calendar":
                body, ct = gen.ics(r, "obj-r%d" % self.fresh), "text/calendar"
            return {"op": "put", "name": name, "body": body.decode("latin-1"), "ctype": ct}
        if k < 0.94:
            return {"op": "delete", "name": r.choice(sorted(self.members))}
        return {"op": r.choice(["restart", "evict", "evict"])}

    def run(self):
        self.arena = Arena(self.tag)
        CLOCK.reset()
        FS.reset()
        self.install_probes()
        w = self.world = World(self.arena, self.cfg)
        try:
            w.boot()
            self.twin = self.make_twin()
            self.pool = filter_pool(random.Random(H("idxpool", self.cfg["seed"])))
            if self.replay_ops is not None:
                for op in self.replay_ops:
                    self.step(dict(op))
            else:
                for i in range(self.rng.randint(3, 8)):
                    name = "o%d.ics" % i
                    body, ct = self.body_new()
                    self.step({"op": "put", "name": name, "body": body.decode("latin-1"), "ctype": ct})
                for i in range(self.cfg["steps"]):
                    self.step(self.gen_op())
        finally:
            nreq = w.nreq
            w.shutdown()
            FS.active = False
            self.arena.destroy()
        seen, uniq = set(), []
        for v in self.violations:
            k = repr(sorted(v["sig"].items()))
            if k not in seen:
                seen.add(k)
                uniq.append(v)
        self.violations = uniq
        return {
            "violations": self.violations[:6], "cfg": self.cfg, "ops": self.ops, "stats": self.stats, "nontrivial": self.nontrivial,
            "digest": self.digest.hexdigest(), "world": {"virtual_s": w.virtual_s + CLOCK.total_advanced, "nreq": nreq},
            "fs": {"bypass": len(FS.bypass), "bypass_sample": FS.bypass[:3]}, "samples": self.samples,
        }

    def step(self, op):
        self.ops.append(op)
        w = self.world
        k = op["op"]
        self.count("op." + k)
        if k == "put":
            r = w.req("PUT", CAL + op["name"], [("Content-Type", op["ctype"])], op["body"].encode("latin-1"))
            if r is not None and r.status in (201, 204):
                self.members[op["name"]] = True
                self.writes_since_index += 1
            self.digest.update(("put %s %s\n" % (op["name"], r.status if r else None)).encode())
        elif k == "delete":
            r = w.req("DELETE", CAL + op["name"])
            if r is not None and r.status in (200, 204):
                self.members.pop(op["name"], None)
                self.writes_since_index += 1
            self.digest.update(("del %s %s\n" % (op["name"], r.status if r else None)).encode())
        elif k == "restart":
            w.restart()
            self.filter_uses = {}
            self.twin = self.make_twin()
            self.count("fault.restart")
        elif k == "evict":
            w.evict()
            self.filter_uses = {}
            self.twin = self.make_twin()
            self.count("fault.cache_evict")
        elif k == "query":
            self.query(op)
        elif k == "query_overlap":
            self.query_overlap(op)
        elif k == "render":
            r = w.req("REPORT", CAL, [dav.XML_CT, ("Depth", "1")], dav.partial_data_body("query", [], op["mode"]))
            self.digest.update(("render %s %s\n" % (op["mode"], r.status if r else None)).encode())
            self.count("rendering_reports")

    def hrefs_of(self, status, body, base):
        if status != 207:
            return None
        try:
            rs, _ = dav.parse_multistatus(body)
        except (ET.ParseError, ValueError):
            return None
        out = set()
        for ms in rs:
            out.add(urllib.parse.unquote(dav.href_path(ms.href or "", base)).rsplit("/", 1)[-1])
        return out

    def query_overlap(self, op):
        """Query A is started on the server's own collection object and only `take` of its results
        are drawn; `reps` complete B queries are then served; A is drawn to the end.  No write
        happens meanwhile, so A's result and every later answer must equal the cold evaluation."""
        from xandikos.caldav import get_calendar_timezone, parse_filter

        w = self.world
        for _ in range(2):
            self.query({"op": "query", "filter": op["a"]})
        try:
            res = w.srv.backend.get_resource(CAL)
        except Exception:  # noqa: BLE001
            res = None
        if res is None or not hasattr(res, "calendar_query"):
            return
        tz = get_calendar_timezone(res)
        fel = dav.cal_filter(op["a"])

        def fn(cls):
            return parse_filter(fel, cls(tz))

        names = []
        failed = None
        try:
            it = iter(res.calendar_query(fn))
            for _ in range(op["take"]):
                try:
                    names.append(next(it)[0])
                except StopIteration:
                    break
        except Exception as e:  # noqa: BLE001 - e.g. a filter the server refuses
            failed = e
        swapped = None
        if op.get("write") and failed is None:
            # a member the suspended query has not reached yet is overwritten now and gets its old
            # bytes back after the query has been drawn to the end
            rest = sorted(n for n in self.members if n not in names and n.endswith(".ics"))
            if rest:
                n = rest[op["write"] % len(rest)]
                g = w.req("GET", CAL + n)
                if g is not None and g.status == 200:
                    body, _ct = gen.ics(random.Random(op["write"]), "obj-swap-%d" % op["write"], comp="VEVENT", rich=2), None
                    p = w.req("PUT", CAL + n, [("Content-Type", "text/calendar")], body)
                    if p is not None and p.status in (201, 204):
                        swapped = (n, g.body)
                        self.writes_since_index += 1
        for _ in range(op["reps"]):
            self.query({"op": "query", "filter": op["b"]})
        if failed is None:
            try:
                for name, _r in it:
                    names.append(name)
            except Exception as e:  # noqa: BLE001
                failed = e
        if swapped is not None:
            w.req("PUT", CAL + swapped[0], [("Content-Type", "text/calendar")], swapped[1])
            self.writes_since_index += 1
            failed = failed or "written-meanwhile"
            self.count("writes_during_suspended_query")
        self.count("fault.query_suspended_mid_result")
        body = dav.calquery_body(fel)
        st, tb = wsgi_call(self.twin, "REPORT", CAL, [dav.XML_CT, ("Depth", "1")], body)
        cold = self.hrefs_of(st, tb, CAL)
        if failed is None and cold is not None and set(names) != cold:
            self.violations.append({"prop": "C10", "oracle": "C10.result-differs-from-cold-evaluation",
                                    "sig": {"oracle": "C10.result-differs-from-cold-evaluation", "filter": filter_type(op["a"]), "index_used": True, "suspended": True,
                                            "multi_component_object": self.multi_component(set(names) ^ cold)},
                                    "step": len(self.ops) - 1,
                                    "detail": "filter %s drawn %d + rest around %d queries %s: got %s, cold evaluation %s" % (op["a"], op["take"], op["reps"], op["b"], sorted(names), sorted(cold))})
        for f in (op["b"], op["a"], op["b"]):
            self.query({"op": "query", "filter": f})

    def query(self, op):
        w = self.world
        body = dav.calquery_body(dav.cal_filter(op["filter"]))
        self.index_used = False
        self.filter_uses[repr(op["filter"])] = self.filter_uses.get(repr(op["filter"]), 0) + 1
        r = w.req("REPORT", CAL, [dav.XML_CT, ("Depth", "1")], body)
        used = self.index_used
        st, tb = wsgi_call(self.twin, "REPORT", CAL, [dav.XML_CT, ("Depth", "1")], body)
        self.index_used = False
        a = self.hrefs_of(r.status if r else None, r.body if r else b"", w.target(CAL))
        b = self.hrefs_of(st, tb, CAL)
        self.digest.update(("q %s %s %s\n" % (r.status if r else None, sorted(a) if a is not None else None, used)).encode())
        self.count("queries")
        if used:
            self.count("queries_answered_from_index")
            if self.writes_since_index:
                self.nontrivial += 1
        if len(self.samples) < 1 and used:
            self.samples.append({"config": {k: self.cfg[k] for k in ("frontend", "index_threshold", "paranoid")}, "filter": op["filter"], "members": sorted(self.members), "result": sorted(a) if a else a, "twin": sorted(b) if b else b})
        ft = filter_type(op["filter"])
        if (r.status if r else None) != st:
            if st == 207 or (r and r.status == 207):
                anymulti = any(self.multi_component({n}) for n in sorted(self.members))
                self.violations.append({"prop": "C10", "oracle": "C10.status-differs-from-cold-evaluation",
                                        "sig": {"oracle": "C10.status-differs-from-cold-evaluation", "filter": ft, "index_used": used, "paranoid": bool(self.cfg.get("paranoid")),
                                                "multi_component_present": anymulti, "server_status": r.status if r else None},
                                        "step": len(self.ops) - 1, "detail": "filter %s: server %s, cold twin %s (threshold %s)" % (op["filter"], r.status if r else None, st, self.cfg["index_threshold"])})
            return
        if a is None or b is None:
            return
        if a != b:
            multi = self.multi_component(a ^ b)
            self.violations.append({"prop": "C10", "oracle": "C10.result-differs-from-cold-evaluation",
                                    "sig": {"oracle": "C10.result-differs-from-cold-evaluation", "filter": ft, "index_used": used, "multi_component_object": multi},
                                    "step": len(self.ops) - 1,
                                    "detail": "filter %s: server returned %s, cold evaluation %s (only-server %s, only-cold %s; index used=%s, threshold %s)" % (
                                        op["filter"], sorted(a), sorted(b), sorted(a - b), sorted(b - a), used, self.cfg["index_threshold"])})

    def multi_component(self, names):
        """True if every differing object has several components of one type."""
        from .. import icalparse

        if not names:
            return False
        for n in names:
            g = self.world.req("GET", CAL + n)
            if g is None or g.status != 200:
                return False
            try:
                top = icalparse.parse(g.body)
            except icalparse.ParseError:
                return False
            kinds = [c.name for t in top for c in t.children if c.name in ("VEVENT", "VTODO", "VJOURNAL")]
            if len(kinds) == len(set(kinds)):
                return False
        return True
