"""The system under test behind an in-process HTTP seam.

Two front ends:
 * aiohttp: the real `xandikos.web.main()` coroutine runs on the SimEventLoop
   (only `TCPSite.start` is a no-op); requests are fed as raw bytes into
   aiohttp's real protocol object through a fake transport.
 * wsgi: the real module body of `xandikos/wsgi.py` (start-up logic) and the
   real `XandikosApp.__call__`; the WSGI *gateway* is a stub written from
   PEP 3333 (split target, percent-decode the path, latin-1 PATH_INFO,
   HTTP_* headers, SCRIPT_NAME for the mount point).
"""

import argparse
import asyncio
import gc
import io
import logging
import os
import runpy
import urllib.parse

from . import loop as simloop
from .simfs import SimCrash


class Resp:
    __slots__ = ("status", "headers", "body", "raw", "outer_status")

    def __init__(self, status, headers, body):
        self.status = status
        self.headers = headers  # list of (name, value)
        self.body = body

    def header(self, name, default=None):
        name = name.lower()
        for k, v in self.headers:
            if k.lower() == name:
                return v
        return default

    def __repr__(self):
        return "<Resp %s %d bytes>" % (self.status, len(self.body or b""))


class _Transport(asyncio.Transport):
    def __init__(self, loop, method):
        super().__init__()
        self._loop = loop
        self.buf = bytearray()
        self.closed = False
        self.done = loop.create_future()
        self.method = method
        self.resp = None

    def get_extra_info(self, name, default=None):
        if name == "peername":
            return ("127.0.0.1", 40000)
        if name == "sockname":
            return ("127.0.0.1", 80)
        return default

    def is_closing(self):
        return self.closed

    def close(self):
        self.closed = True
        self._try_parse(eof=True)

    def abort(self):
        self.close()

    def write(self, data):
        self.buf += data
        self._try_parse()

    def writelines(self, lines):
        for l in lines:
            self.buf += l
        self._try_parse()

    def write_eof(self):
        self._try_parse(eof=True)

    def can_write_eof(self):
        return True

    def pause_reading(self):
        pass

    def resume_reading(self):
        pass

    def is_reading(self):
        return True

    def set_write_buffer_limits(self, high=None, low=None):
        pass

    def get_write_buffer_size(self):
        return 0

    def get_write_buffer_limits(self):
        return (0, 0)

    def set_protocol(self, protocol):
        pass

    def _try_parse(self, eof=False):
        if self.done.done():
            return
        r = parse_response(bytes(self.buf), self.method, eof)
        if r is not None:
            self.resp = r
            self.done.set_result(r)
        elif eof:
            self.done.set_result(None)


def parse_response(buf, method, eof=False):
    while True:
        i = buf.find(b"\r\n\r\n")
        if i < 0:
            return None
        head = buf[:i].decode("latin-1").split("\r\n")
        parts = head[0].split(" ", 2)
        status = int(parts[1])
        headers = []
        for line in head[1:]:
            k, _, v = line.partition(":")
            headers.append((k.strip(), v.strip()))
        rest = buf[i + 4:]
        if 100 <= status < 200:
            buf = rest
            continue
        break
    hd = {k.lower(): v for k, v in headers}
    if method == "HEAD" or status in (204, 304):
        return Resp(status, headers, b"")
    if "content-length" in hd:
        n = int(hd["content-length"])
        if len(rest) >= n:
            return Resp(status, headers, rest[:n])
        return None
    if hd.get("transfer-encoding", "").lower() == "chunked":
        out = bytearray()
        p = 0
        while True:
            j = rest.find(b"\r\n", p)
            if j < 0:
                return None
            size = int(rest[p:j].split(b";")[0], 16)
            p = j + 2
            if size == 0:
                return Resp(status, headers, bytes(out))
            if len(rest) < p + size + 2:
                return None
            out += rest[p:p + size]
            p += size + 2
    if eof:
        return Resp(status, headers, rest)
    return None


class _NoSite:
    def __init__(self, runner, *a, **kw):
        self.runner = runner

    async def start(self):
        return None


class Server:
    """One simulated server process on a data directory."""

    def __init__(self, root, frontend="aiohttp", prefix="/", principal="/user/",
                 autocreate="defaults", index_threshold=None, paranoid=False, strict=True):
        self.root = root
        self.frontend = frontend
        self.prefix = prefix if prefix.endswith("/") else prefix + "/"
        self.principal = principal
        self.autocreate = autocreate  # None | "yes" | "defaults"
        self.index_threshold = index_threshold
        self.paranoid = paranoid
        self.strict = strict
        self.loop = None
        self.started = False
        self.requests = 0
        self.virtual_s = 0.0
        self._runner = None
        self._main_task = None
        self.app = None
        self.backend = None

    # ---- lifecycle --------------------------------------------------------
    def start(self):
        self.loop = simloop.new_loop()
        if self.frontend == "aiohttp":
            self._start_aiohttp()
        else:
            self._start_wsgi()
        self.started = True

    def _start_aiohttp(self):
        import xandikos.web as xw
        from aiohttp import web

        parser = argparse.ArgumentParser()
        xw.add_parser(parser)
        argv = ["-d", self.root, "--route-prefix", self.prefix.rstrip("/") or "/",
                "--current-user-principal", self.principal, "--no-detect-systemd"]
        if self.autocreate == "defaults":
            argv.append("--defaults")
        elif self.autocreate == "yes":
            argv.append("--autocreate")
        if not self.strict:
            argv.append("--no-strict")
        if self.paranoid:
            argv.append("--paranoid")
        if self.index_threshold is not None:
            argv += ["--index-threshold", str(self.index_threshold)]
        options = parser.parse_args(argv)
        captured = {}
        real_runner = web.AppRunner
        real_site = web.TCPSite
        real_xapp = xw.XandikosApp

        class CapRunner(real_runner):
            def __init__(s, app, **kw):
                kw.setdefault("handle_signals", False)
                super().__init__(app, **kw)
                captured["runner"] = s

        class CapApp(real_xapp):
            def __init__(s, backend, *a, **kw):
                super().__init__(backend, *a, **kw)
                captured["app"] = s

        import signal

        real_signal = signal.signal
        web.AppRunner = CapRunner
        web.TCPSite = _NoSite
        xw.XandikosApp = CapApp
        signal.signal = lambda *a, **k: None
        try:
            self._main_task = self.loop.create_task(xw.main(options, parser), name="xandikos-main")

            async def until_ready():
                for _ in range(10000):
                    r = captured.get("runner")
                    if r is not None and r.server is not None:
                        await asyncio.sleep(0)
                        await asyncio.sleep(0)
                        return
                    if self._main_task.done():
                        self._main_task.result()
                        raise RuntimeError("xandikos main() returned")
                    await asyncio.sleep(0)
                raise RuntimeError("server did not come up")

            self.loop.run_until_complete(until_ready())
        finally:
            web.AppRunner = real_runner
            web.TCPSite = real_site
            xw.XandikosApp = real_xapp
            signal.signal = real_signal
        self._runner = captured["runner"]
        self.app = captured["app"]
        self.backend = self.app.backend

    def _start_wsgi(self):
        env = os.environ
        env["XANDIKOSPATH"] = self.root
        env["CURRENT_USER_PRINCIPAL"] = self.principal
        if self.autocreate == "defaults":
            env["AUTOCREATE"] = "defaults"
        elif self.autocreate == "yes":
            env["AUTOCREATE"] = "yes"
        else:
            env.pop("AUTOCREATE", None)
        g = runpy.run_module("xandikos.wsgi", run_name="xandikos.wsgi")
        self.app = g["app"]
        self.backend = g["backend"]
        # the wsgi module has no knobs for these; they are constructor
        # parameters of the backend (same seam the aiohttp CLI uses)
        if self.index_threshold is not None:
            self.backend.index_threshold = self.index_threshold
        if self.paranoid:
            self.backend.paranoid = True
        self.app.strict = self.strict
        from xandikos.wsgi_helpers import WellknownRedirector

        self._wsgi = WellknownRedirector(self.app, self.prefix)

    def stop(self):
        if not self.started:
            return
        self.started = False
        try:
            if self.frontend == "aiohttp" and self._runner is not None:
                async def down():
                    self._main_task.cancel()
                    try:
                        await self._main_task
                    except (asyncio.CancelledError, Exception):
                        pass
                    await self._runner.cleanup()

                self.loop.run_until_complete(down())
        except (Exception, SimCrash):
            pass
        self.virtual_s += self.loop.virtual_elapsed
        try:
            self.loop.close()
        except Exception:
            pass
        asyncio.set_event_loop(None)
        self._runner = self._main_task = self.app = self.backend = None
        self._wsgi = None
        drop_store_cache()
        drop_module_caches()
        gc.collect()

    def kill(self):
        """Process death: no clean-up code runs."""
        self.started = False
        if self.loop is not None:
            self.virtual_s += self.loop.virtual_elapsed
        self._runner = self._main_task = self.app = self.backend = None
        self._wsgi = None
        self.loop = None
        asyncio.set_event_loop(None)
        drop_store_cache()
        drop_module_caches()
        gc.collect()

    # ---- requests ---------------------------------------------------------
    def request(self, method, target, headers=None, body=b"", chunks=None, cut_at=None):
        """Send one request.  `target` is the raw request-target (already
        percent-encoded).  chunks: list of sizes for data_received calls
        (aiohttp only).  cut_at: close the connection after that many bytes."""
        self.requests += 1
        headers = list(headers or [])
        if self.frontend == "aiohttp":
            return self._request_aiohttp(method, target, headers, body, chunks, cut_at)
        return self._request_wsgi(method, target, headers, body)

    def raw_request(self, method, target, headers, body):
        lines = ["%s %s HTTP/1.1" % (method, target), "Host: sim"]
        has_len = False
        for k, v in headers or ():
            if k.lower() == "content-length":
                has_len = True
            lines.append("%s: %s" % (k, v))
        if not has_len and (body or method in ("PUT", "POST", "PROPFIND", "PROPPATCH", "REPORT", "MKCOL", "MKCALENDAR")):
            lines.append("Content-Length: %d" % len(body))
        head = ("\r\n".join(lines) + "\r\n\r\n").encode("latin-1")
        return head, body

    def open_conn(self, method):
        """Low-level seam for overlapping requests (aiohttp front end)."""
        proto = self._runner.server()
        tr = _Transport(self.loop, method)
        proto.connection_made(tr)
        return proto, tr

    def _request_aiohttp(self, method, target, headers, body, chunks, cut_at):
        lines = ["%s %s HTTP/1.1" % (method, target), "Host: sim"]
        has_len = False
        for k, v in headers:
            if k.lower() == "content-length":
                has_len = True
            lines.append("%s: %s" % (k, v))
        if not has_len and (body or method in ("PUT", "POST", "PROPFIND", "PROPPATCH", "REPORT", "MKCOL", "MKCALENDAR")):
            lines.append("Content-Length: %d" % len(body))
        raw = ("\r\n".join(lines) + "\r\n\r\n").encode("latin-1") + body
        if cut_at is not None:
            raw = raw[:cut_at]
        pieces = []
        if chunks:
            p = 0
            for n in chunks:
                if p >= len(raw):
                    break
                pieces.append(raw[p:p + n])
                p += n
            if p < len(raw):
                pieces.append(raw[p:])
        else:
            pieces = [raw]
        loop = self.loop
        proto = self._runner.server()
        tr = _Transport(loop, method)
        proto.connection_made(tr)

        async def drive():
            for i, piece in enumerate(pieces):
                proto.data_received(piece)
                if i + 1 < len(pieces):
                    await asyncio.sleep(0)
                    await asyncio.sleep(0)
            if cut_at is not None:
                for _ in range(5):
                    await asyncio.sleep(0)
                proto.connection_lost(None)
                for _ in range(10):
                    await asyncio.sleep(0)
                return tr.resp
            try:
                r = await asyncio.wait_for(asyncio.shield(tr.done), 600)
            except asyncio.TimeoutError:
                r = None
            proto.connection_lost(None)
            for _ in range(3):
                await asyncio.sleep(0)
            return r

        return loop.run_until_complete(drive())

    def _request_wsgi(self, method, target, headers, body):
        path, _, query = target.partition("?")
        raw = urllib.parse.unquote_to_bytes(path)
        p = raw.decode("latin-1")
        mount = self.prefix.rstrip("/")
        alias = False
        if p == "/@alias" or p.startswith("/@alias/"):
            # the gateway publishes the same application object under a second mount point
            script_name, path_info, alias = "/@alias", p[len("/@alias"):], True
        elif mount and (p == mount or p.startswith(mount + "/")):
            script_name, path_info = mount, p[len(mount):]
        else:
            script_name, path_info = "", p
        environ = {
            "REQUEST_METHOD": method,
            "SCRIPT_NAME": script_name,
            "PATH_INFO": path_info,
            "QUERY_STRING": query,
            "SERVER_NAME": "sim",
            "SERVER_PORT": "80",
            "SERVER_PROTOCOL": "HTTP/1.1",
            "HTTP_HOST": "sim",
            "wsgi.version": (1, 0),
            "wsgi.url_scheme": "http",
            "wsgi.input": io.BytesIO(body),
            "wsgi.errors": io.StringIO(),
            "wsgi.multithread": False,
            "wsgi.multiprocess": True,
            "wsgi.run_once": False,
        }
        has_len = False
        for k, v in headers:
            kl = k.lower()
            if kl == "content-type":
                environ["CONTENT_TYPE"] = v
            elif kl == "content-length":
                environ["CONTENT_LENGTH"] = v
                has_len = True
            else:
                environ["HTTP_" + k.upper().replace("-", "_")] = v
        if not has_len and (body or method in ("PUT", "POST", "PROPFIND", "PROPPATCH", "REPORT", "MKCOL", "MKCALENDAR")):
            environ["CONTENT_LENGTH"] = str(len(body))
        out = {}

        def start_response(status, hdrs, exc_info=None):
            out["status"] = int(status.split(" ", 1)[0])
            out["headers"] = list(hdrs)
            return lambda data: None

        if alias:
            it = self._wsgi(environ, start_response)
        elif mount and not script_name:
            # outside the mount point: only the well-known redirector sees it
            if p in ("/.well-known/caldav", "/.well-known/carddav"):
                it = self._wsgi(environ, start_response)
            else:
                return Resp(404, [], b"")
        else:
            it = self._wsgi(environ, start_response)
        data = b"".join(it)
        if hasattr(it, "close"):
            it.close()
        if method == "HEAD":
            data = b""
        return Resp(out["status"], out["headers"], data)


def drop_store_cache():
    try:
        import xandikos.web as xw

        xw.open_store_from_path.cache_clear()
    except Exception:
        pass


def drop_module_caches():
    """A restarted process has empty function caches.  The simulated restart keeps the
    interpreter, so every functools cache found in the xandikos modules is cleared here;
    other module-level state a change might add would survive (stated limit)."""
    import sys

    for name, mod in list(sys.modules.items()):
        if not (name == "xandikos" or name.startswith("xandikos.")) or mod is None:
            continue
        for obj in list(vars(mod).values()):
            cc = getattr(obj, "cache_clear", None)
            if callable(cc):
                try:
                    cc()
                except Exception:
                    pass


def quiet_logging():
    root = logging.getLogger()
    if not root.handlers:
        root.addHandler(logging.NullHandler())
    logging.disable(logging.CRITICAL)
