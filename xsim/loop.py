"""SimEventLoop: virtual-time asyncio loop with an inline executor."""

import asyncio
from asyncio import base_events


class Deadlock(RuntimeError):
    pass


class _Selector:
    def __init__(self, loop):
        self._loop = loop

    def select(self, timeout):
        if timeout is None:
            raise Deadlock("event loop has nothing to run and no timer")
        if timeout > 0:
            self._loop._now += timeout
            self._loop.virtual_elapsed += timeout
        return []

    def close(self):
        pass


class SimEventLoop(base_events.BaseEventLoop):
    def __init__(self):
        super().__init__()
        self._now = 1000.0
        self.virtual_elapsed = 0.0
        self._selector = _Selector(self)
        self.executor_calls = 0

    def time(self):
        return self._now

    def _process_events(self, event_list):
        pass

    def _write_to_self(self):
        pass

    def run_in_executor(self, executor, func, *args):
        fut = self.create_future()
        self.executor_calls += 1

        def run():
            if fut.cancelled():
                return
            try:
                r = func(*args)
            except BaseException as e:  # noqa: BLE001 - delivered to the awaiter
                fut.set_exception(e)
            else:
                fut.set_result(r)

        self.call_soon(run)
        return fut

    def close(self):
        if self.is_closed():
            return
        super().close()


def new_loop():
    loop = SimEventLoop()
    asyncio.set_event_loop(loop)
    return loop
