"""E-DISCO: service discovery in every deployment layout (C18).

A client node starts at the server root (or a .well-known redirect) and
follows only hrefs the server returned: current-user-principal, then
calendar-home-set / addressbook-home-set, then a Depth 1 listing.  Between
restarts user data is written; every restart must leave it exactly as it was.
"""

import hashlib
import os
import random
import urllib.parse
from xml.etree import ElementTree as ET

from .. import dav, gen
from ..rng import H
from ..simclock import CLOCK
from ..simfs import FS
from ..world import Arena, World

PREFIXES = ["/", "/dav/", "/a/b/"]
PRINCIPALS = ["/user/", "/user", "/users/alice/", "/a/b/c"]
AUTOCREATE = ["defaults", "yes"]
FRONTENDS = ["aiohttp", "wsgi"]
GRID = [(p, pr, ac, fe) for p in PREFIXES for pr in PRINCIPALS for ac in AUTOCREATE for fe in FRONTENDS]


def make_config(seed, tier, index=None):
    r = random.Random(H("discocfg", seed))
    # thorough: the grid is walked systematically by run index, the history on
    # top of it is seeded; quick: sampled
    p, pr, ac, fe = GRID[index % len(GRID)] if (tier == "thorough" and index is not None) else r.choice(GRID)
    return {"seed": seed, "prefix": p, "principal": pr, "autocreate": ac, "frontend": fe, "strict": True, "listing": True,
            "restarts": r.randint(0, 3), "entry": r.choice(["root", "root", "wk-caldav", "wk-carddav"]), "writes": r.randint(1, 4),
            "recreate": r.random() < 0.35,
            # collections that arrived as bare repositories (git clone --bare / push) below the home sets
            "bare_collections": r.random() < 0.4,
            # first start with --autocreate only, a later restart with --defaults
            "upgrade_to_defaults": ac == "yes" and r.random() < 0.5,
            # the operator converts the default collections into bare repositories while the server is down
            "migrate_to_bare": ac == "defaults" and r.random() < 0.4,
            "stray": r.random() < 0.3,
            "probe_root_mount": r.random() < 0.4}


class DiscoRun:
    def __init__(self, cfg, ops=None, tag="disco"):
        self.cfg = cfg
        self.tag = tag
        self.replay_ops = ops
        self.ops = []
        self.violations = []
        self.stats = {}
        self.rng = random.Random(H("discowork", cfg["seed"]))
        self.digest = hashlib.sha256()
        self.samples = []
        self.data = {}  # target path -> bytes
        self.props = {}  # collection target -> displayname
        self.tokens = {}
        self.hops = 0

    def count(self, k, n=1):
        self.stats[k] = self.stats.get(k, 0) + n

    def v(self, oracle, detail, **sig):
        s = {"oracle": oracle, "frontend": self.cfg["frontend"]}
        s.update(sig)
        self.violations.append({"prop": "C18", "oracle": oracle, "sig": s, "step": len(self.ops), "detail": detail[:600]})

    def layout(self):
        c = self.cfg
        return "prefix=%s principal=%s autocreate=%s frontend=%s" % (c["prefix"], c["principal"], c["autocreate"], c["frontend"])

    # ---- client node ---------------------------------------------------------
    def propfind(self, target, props, depth="0"):
        r = self.world.req("PROPFIND", target=target, headers=[("Depth", depth), dav.XML_CT], body=dav.propfind_body(props))
        self.hops += 1
        if r is None or r.status != 207:
            return r, None
        try:
            rs, _ = dav.parse_multistatus(r.body)
        except (ET.ParseError, ValueError):
            return r, None
        return r, rs

    def in_mount(self, path, what, phase):
        """An href handed out below a route prefix stays below it (a second mount of the same
        application - here the bare root - must not leak into the answers of this one)."""
        pre = self.world.prefix.rstrip("/")
        if (pre and not (path == pre or path.startswith(pre + "/"))) or urllib.parse.unquote(path).startswith("/@alias"):
            self.v("C18.href-leaves-the-mount-point", "%s: %s href %r is outside the route prefix (%s)" % (self.layout(), what, path, phase), step="mount", which=what)

    def discover(self, phase):
        """Returns {"calendars": [targets], "addressbooks": [targets]} or None."""
        w = self.world
        c = self.cfg
        start = w.prefix
        if c["entry"].startswith("wk-"):
            wk = "/.well-known/" + c["entry"][3:]
            r = w.req("GET", target=wk)
            self.hops += 1
            loc = r.header("Location") if r is not None else None
            if r is None or r.status not in (301, 302, 303, 307, 308) or not loc:
                self.v("C18.well-known-does-not-redirect", "%s: GET %s -> %s Location=%r (%s)" % (self.layout(), wk, r.status if r else None, loc, phase), step="well-known")
                return None
            start = dav.href_path(loc, wk)
        r, rs = self.propfind(start, [dav.P_CUP, dav.P_RESOURCETYPE])
        if not rs:
            self.v("C18.root-propfind-failed", "%s: PROPFIND %s -> %s (%s)" % (self.layout(), start, r.status if r else None, phase), step="root")
            return None
        e = rs[0].prop(dav.P_CUP)
        hrefs = dav.hrefs_in(e) if e is not None else []
        if not hrefs:
            self.v("C18.no-current-user-principal", "%s: PROPFIND %s gives no current-user-principal href (%s)" % (self.layout(), start, phase), step="root")
            return None
        princ = dav.href_path(hrefs[0], start)
        self.in_mount(princ, "current-user-principal", phase)
        r, rs = self.propfind(princ, [dav.P_CAL_HOME, dav.P_AB_HOME, dav.P_RESOURCETYPE, dav.P_PRINCIPAL_URL])
        if not rs or rs[0].status == 404:
            self.v("C18.principal-href-does-not-resolve", "%s: current-user-principal %r -> PROPFIND %s -> %s (%s)" % (self.layout(), hrefs[0], princ, r.status if r else None, phase), step="principal")
            return None
        rt = rs[0].prop(dav.P_RESOURCETYPE)
        if rt is None or not any(x.tag == dav.RT_PRINCIPAL for x in rt):
            self.v("C18.principal-has-no-principal-resourcetype", "%s: %s has resourcetype %s (%s)" % (self.layout(), princ, [x.tag for x in rt] if rt is not None else None, phase), step="principal")
        out = {"calendars": [], "addressbooks": [], "homes": []}
        for tag, key, want in ((dav.P_CAL_HOME, "calendars", dav.RT_CALENDAR), (dav.P_AB_HOME, "addressbooks", dav.RT_ADDRESSBOOK)):
            e = rs[0].prop(tag)
            hs = dav.hrefs_in(e) if e is not None else []
            if not hs:
                self.v("C18.no-home-set", "%s: principal %s has no %s (%s)" % (self.layout(), princ, tag.split("}")[1], phase), step="home-set", which=key)
                continue
            home = dav.href_path(hs[0], princ)
            self.in_mount(home, tag.split("}")[1], phase)
            out["homes"].append(home)
            r2, rs2 = self.propfind(home, [dav.P_RESOURCETYPE, dav.P_DISPLAYNAME, dav.P_SYNCTOKEN], depth="1")
            if not rs2 or (rs2[0].status == 404):
                self.v("C18.home-set-href-does-not-resolve", "%s: %s %r -> PROPFIND %s -> %s (%s)" % (self.layout(), tag.split("}")[1], hs[0], home, r2.status if r2 else None, phase), step="home-set", which=key)
                continue
            for ms in rs2:
                t = ms.prop(dav.P_RESOURCETYPE)
                if t is not None and any(x.tag == want for x in t):
                    tgt = dav.href_path(ms.href or "", home)
                    # the href must itself resolve to a collection of that type
                    r3, rs3 = self.propfind(tgt, [dav.P_RESOURCETYPE])
                    ok = bool(rs3) and rs3[0].prop(dav.P_RESOURCETYPE) is not None and any(x.tag == want for x in rs3[0].prop(dav.P_RESOURCETYPE))
                    if not ok:
                        self.v("C18.collection-href-does-not-resolve", "%s: listed %r -> PROPFIND %s -> %s (%s)" % (self.layout(), ms.href, tgt, r3.status if r3 else None, phase), step="collection", which=key)
                    else:
                        out[key].append(tgt)
        return out

    # ---- run ------------------------------------------------------------------
    def run(self):
        self.arena = Arena(self.tag)
        CLOCK.reset()
        FS.reset()
        w = self.world = World(self.arena, self.cfg)
        try:
            w.boot()
            self.script()
        finally:
            nreq = w.nreq
            w.shutdown()
            FS.active = False
            self.arena.destroy()
        seen, uniq = set(), []
        for v in self.violations:
            k = repr(sorted(v["sig"].items()))
            if k not in seen:
                seen.add(k)
                uniq.append(v)
        c = self.cfg
        return {"violations": uniq[:6], "cfg": c, "ops": self.ops, "stats": self.stats, "digest": self.digest.hexdigest(),
                "layout": [c["prefix"], c["principal"], c["autocreate"], c["frontend"], c["restarts"], c["entry"]],
                "world": {"virtual_s": w.virtual_s, "nreq": nreq}, "fs": {"bypass": len(FS.bypass), "bypass_sample": FS.bypass[:3]}, "samples": self.samples,
                "hops": self.hops}

    def script(self):
        c = self.cfg
        w = self.world
        r = self.rng
        if c.get("probe_root_mount") and c["frontend"] == "wsgi":
            # the same application object is also published under a second mount point (an alias):
            # what it answers there must not stick to what it answers below the configured prefix
            self.propfind("/@alias/", [dav.P_CUP])
            self.propfind("/@alias" + c["principal"], [dav.P_CUP, dav.P_CAL_HOME])
            self.count("requests_through_second_mount", 2)
        found = self.discover("first start")
        self.ops.append({"op": "discover", "found": {k: len(v) for k, v in (found or {}).items()}})
        if found is None:
            return
        if c["autocreate"] == "defaults":
            if not found["calendars"]:
                self.v("C18.default-calendar-not-reachable", "%s: no calendar collection reachable from the calendar home set after first start with defaults" % self.layout(), step="collection", which="calendars")
            if not found["addressbooks"]:
                self.v("C18.default-addressbook-not-reachable", "%s: no address book reachable from the addressbook home set after first start with defaults" % self.layout(), step="collection", which="addressbooks")
        else:
            # create the user's collections under the discovered home sets
            for home, method, body, ctype in ((found["homes"][0] if found["homes"] else None, "MKCALENDAR", b"", None),
                                             (found["homes"][1] if len(found["homes"]) > 1 else None, "MKCOL", dav.mkcol_body([dav.RT_COLLECTION, dav.RT_ADDRESSBOOK], []), "text/xml")):
                if home is None:
                    continue
                tgt = home + ("mine/" if method == "MKCALENDAR" else "people/")
                rr = w.req(method, target=tgt, headers=[("Content-Type", ctype)] if ctype else [], body=body)
                self.ops.append({"op": method, "target": tgt, "status": rr.status if rr else None})
            found = self.discover("after creating collections")
            if found is None:
                return
            if not found["calendars"] or not found["addressbooks"]:
                self.v("C18.created-collection-not-reachable", "%s: calendars=%s addressbooks=%s after MKCALENDAR/MKCOL under the home sets" % (self.layout(), found["calendars"], found["addressbooks"]), step="collection")
        if c.get("recreate") and len(found["homes"]) >= 2:
            found = self.recreate_as_other_type(found)
            if found is None:
                return
        if len(self.samples) < 1:
            self.samples.append({"layout": self.layout(), "entry": c["entry"], "restarts": c["restarts"], "reached": found})
        restarts = c["restarts"]
        if (c.get("bare_collections") or c.get("upgrade_to_defaults") or c.get("migrate_to_bare")) and restarts == 0:
            restarts = 1
        for i in range(restarts + 1):
            self.write_data(found, i)
            if i == restarts:
                break
            if i == 0 and c.get("bare_collections") and len(found["homes"]) >= 2:
                self.add_bare_collections(found)
            if i == 0 and c.get("migrate_to_bare"):
                self.migrate_to_bare(found)
            if i == 0 and c.get("upgrade_to_defaults"):
                w.cfg["autocreate"] = "defaults"
                w.srv.autocreate = "defaults"
                self.ops.append({"op": "config", "autocreate": "defaults"})
            w.restart()
            self.count("fault.restart")
            self.ops.append({"op": "restart"})
            again = self.discover("after restart %d" % (i + 1))
            if again is None:
                return
            if i == 0 and c.get("bare_collections") and getattr(self, "bare_targets", None):
                for key, tgt in self.bare_targets.items():
                    if tgt not in again[key]:
                        self.v("C18.bare-collection-not-reachable", "%s: the bare repository collection %s exists (typed %s) but discovery does not reach it" % (self.layout(), tgt, key), step="collection", which=key)
                self.count("bare_collections_checked", len(self.bare_targets))
                for key, tgt in getattr(self, "untyped_targets", {}).items():
                    if tgt not in again[key]:
                        self.v("C18.untyped-collection-not-reachable", "%s: the repository %s holds only %s and carries no type; discovery does not reach it as such" % (self.layout(), tgt, key), step="collection", which=key)
            if i == 0 and c.get("upgrade_to_defaults") and c["frontend"] == "aiohttp":
                # xandikos.web.main() calls create_principal(create_defaults=True) on every start;
                # (xandikos/wsgi.py only does so when the principal directory is missing)
                if not any(t.endswith("/calendar/") for t in again["calendars"]) or not any(t.endswith("/addressbook/") for t in again["addressbooks"]):
                    self.v("C18.defaults-not-created-on-later-start", "%s: restart with --defaults after a first start with --autocreate: calendars=%s addressbooks=%s" % (self.layout(), again["calendars"], again["addressbooks"]), step="collection")
            for key in ("calendars", "addressbooks"):
                lost = set(found[key]) - set(again[key])
                if lost:
                    self.v("C18.collection-lost-after-restart", "%s: %s no longer reachable after restart %d" % (self.layout(), sorted(lost), i + 1), step="restart", which=key)
            self.verify_data("restart %d" % (i + 1))
            found = again

    def add_bare_collections(self, found):
        """Behind the server's back (it is about to restart): bare repositories below the home sets."""
        import os
        import urllib.parse

        from ..simfs import FS
        from ..world import preseed_collection

        a = FS.active
        FS.active = False
        try:
            self.bare_targets = {}
            pre = self.world.prefix.rstrip("/")
            for key, home, name, kind in (("calendars", found["homes"][0], "barecal", "calendar"), ("addressbooks", found["homes"][1], "barebook", "addressbook")):
                rel = urllib.parse.unquote(home[len(pre):]) + name + "/"
                preseed_collection(self.arena.root, rel, "bare", kind)
                self.bare_targets[key] = home + name + "/"
            if self.cfg.get("untyped", True):
                # and repositories nobody typed: discovery goes by what they contain
                self.untyped_targets = {}
                for key, home, name, kind in (("calendars", found["homes"][0], "gitcal", "calendar"), ("addressbooks", found["homes"][1], "gitbook", "addressbook")):
                    rel = urllib.parse.unquote(home[len(pre):]) + name + "/"
                    preseed_collection(self.arena.root, rel, "untyped", kind)
                    self.untyped_targets[key] = home + name + "/"
        finally:
            FS.active = a

    def migrate_to_bare(self, found):
        """Server down: every non-bare collection found by discovery becomes a bare repository at
        the same place (git clone --bare, swap).  Contents, properties and tokens are the same."""
        import os
        import subprocess
        import urllib.parse

        from ..simfs import FS
        from ..world import rmtree_real

        a = FS.active
        FS.active = False
        try:
            from ..server import drop_store_cache

            drop_store_cache()
            pre = self.world.prefix.rstrip("/")
            env = dict(os.environ, GIT_CONFIG_GLOBAL="/dev/null")
            for tgt in sorted(found["calendars"] + found["addressbooks"]):
                p = os.path.join(self.arena.root, urllib.parse.unquote(tgt[len(pre):]).strip("/"))
                if not os.path.isdir(os.path.join(p, ".git")):
                    continue
                tmp = p + ".bare-tmp"
                q = subprocess.run(["git", "-c", "safe.directory=*", "clone", "-q", "--bare", "--no-hardlinks", p, tmp], env=env, capture_output=True, timeout=60)
                if q.returncode != 0:
                    # e.g. no commit yet: nothing to migrate
                    rmtree_real(tmp)
                    continue
                rmtree_real(p)
                os.rename(tmp, p)
                self.count("fault.collection_migrated_to_bare")
                self.ops.append({"op": "migrate_to_bare", "target": tgt})
        finally:
            FS.active = a

    def recreate_as_other_type(self, found):
        """A collection is created, listed, deleted and created again at the
        same URL as the other type; discovery must report what exists now."""
        w = self.world
        cal_home, ab_home = found["homes"][0], found["homes"][1]
        tgt = ab_home + "swap/"
        r1 = w.req("MKCALENDAR", target=tgt)
        self.discover("after creating swap/ as calendar")
        r2 = w.req("DELETE", target=tgt)
        r3 = w.req("MKCOL", target=tgt, headers=[("Content-Type", "text/xml")], body=dav.mkcol_body([dav.RT_COLLECTION, dav.RT_ADDRESSBOOK], []))
        self.ops.append({"op": "recreate", "target": tgt, "status": [x.status if x else None for x in (r1, r2, r3)]})
        again = self.discover("after re-creating swap/ as address book")
        if again is None:
            return None
        if r3 is not None and r3.status == 201 and tgt not in again["addressbooks"]:
            _, rs = self.propfind(tgt, [dav.P_RESOURCETYPE])
            rt = [x.tag for x in rs[0].prop(dav.P_RESOURCETYPE)] if rs and rs[0].prop(dav.P_RESOURCETYPE) is not None else None
            self.v("C18.recreated-collection-has-wrong-type", "%s: %s deleted as calendar and re-created as address book is listed with resourcetype %s" % (self.layout(), tgt, rt), step="collection", which="addressbooks")
        self.count("recreate_steps")
        return again

    def write_data(self, found, round_no):
        w = self.world
        r = self.rng
        for k in range(self.cfg["writes"]):
            if found["calendars"] and r.random() < 0.6:
                col = r.choice(sorted(found["calendars"]))
                tgt = col + "ev%d-%d.ics" % (round_no, k)
                body = gen.ics(r, "disco-%d-%d" % (round_no, k))
                ct = "text/calendar"
            elif found["addressbooks"]:
                col = r.choice(sorted(found["addressbooks"]))
                tgt = col + "c%d-%d.vcf" % (round_no, k)
                body = gen.vcf(r, uid="dc-%d-%d" % (round_no, k))
                ct = "text/vcard"
            else:
                continue
            rr = w.req("PUT", target=tgt, headers=[("Content-Type", ct)], body=body)
            self.ops.append({"op": "PUT", "target": tgt, "status": rr.status if rr else None})
            if rr is not None and rr.status in (201, 204):
                g = w.req("GET", target=tgt)
                if g is not None and g.status == 200:
                    self.data[tgt] = (g.body, g.header("ETag"))
        if self.cfg.get("stray") and round_no == 0 and len(found["homes"]) >= 2:
            # a client drops an item directly into a home set (wrong URL, drag and drop in a file manager view)
            for home, nm, body, ct in ((found["homes"][0], "stray.ics", gen.ics(r, "stray-uid"), "text/calendar"), (found["homes"][1], "stray.vcf", gen.vcf(r, uid="stray-card"), "text/vcard")):
                rr = w.req("PUT", target=home + nm, headers=[("Content-Type", ct)], body=body)
                self.ops.append({"op": "PUT", "target": home + nm, "status": rr.status if rr else None})
            self.count("stray_items_in_home_sets")
        cols = sorted(found["calendars"] + found["addressbooks"])
        if cols and r.random() < 0.7:
            col = r.choice(cols)
            name = "Name %d" % r.randint(0, 999)
            rr = w.req("PROPPATCH", target=col, headers=[dav.XML_CT], body=dav.proppatch_body([("set", dav.P_DISPLAYNAME, name)]))
            if rr is not None and rr.status == 207 and b"200 OK" in rr.body:
                self.props[col] = name
        for col in cols:
            _, rs = self.propfind(col, [dav.P_SYNCTOKEN, dav.P_DISPLAYNAME])
            if rs:
                self.tokens[col] = rs[0].text(dav.P_SYNCTOKEN)

    def verify_data(self, phase):
        w = self.world
        for tgt, (body, etag) in sorted(self.data.items()):
            g = w.req("GET", target=tgt)
            if g is None or g.status != 200 or g.body != body or g.header("ETag") != etag:
                self.v("C18.user-data-changed-by-restart", "%s: %s after %s: status %s, same bytes %s, etag %s (was %s)" % (
                    self.layout(), tgt, phase, g.status if g else None, g is not None and g.body == body, g.header("ETag") if g else None, etag), step="restart")
        for col, name in sorted(self.props.items()):
            _, rs = self.propfind(col, [dav.P_DISPLAYNAME, dav.P_SYNCTOKEN])
            if not rs or rs[0].text(dav.P_DISPLAYNAME) != name:
                self.v("C18.property-changed-by-restart", "%s: displayname of %s after %s is %r, was %r" % (self.layout(), col, phase, rs[0].text(dav.P_DISPLAYNAME) if rs else None, name), step="restart")
        for col, tok in sorted(self.tokens.items()):
            _, rs = self.propfind(col, [dav.P_SYNCTOKEN])
            if rs and tok is not None and rs[0].text(dav.P_SYNCTOKEN) != tok:
                self.v("C18.collection-reinitialised-by-restart", "%s: sync-token of %s changed across %s (%s -> %s)" % (self.layout(), col, phase, tok, rs[0].text(dav.P_SYNCTOKEN)), step="restart")
        self.count("data_verified", len(self.data))


class ThreadedCreateRun:
    """A collection is being created (MKCALENDAR) while another request of the same process looks at
    it and lists its home set - worker threads of a threaded WSGI deployment.  The creating thread
    is parked at each of its file-system events in turn (depth-1 pre-emptions, enumerated); when
    both are done the new collection must be what it is after a sequential execution."""

    REL = "/user/calendars/fresh"

    def __init__(self, seed, tier, tag, plan=None):
        self.seed, self.tier, self.tag, self.plan = seed, tier, tag, plan
        self.violations = []
        self.stats = {}

    def count(self, k, n=1):
        self.stats[k] = self.stats.get(k, 0) + n

    @staticmethod
    def describe(r):
        if r is None:
            return ("absent",)
        try:
            return (type(r).__name__, tuple(sorted(r.resource_types)))
        except Exception as e:  # noqa: BLE001
            return (type(r).__name__, "error:" + type(e).__name__)

    def fresh_backend(self, root):
        from xandikos.web import XandikosBackend

        from ..server import drop_store_cache

        drop_store_cache()
        b = XandikosBackend(root)
        b._mark_as_principal("/user/")
        return b

    def fns(self, b):
        from xandikos import caldav

        rel = self.REL
        seen = []

        def create():
            r = b.create_collection(rel)
            r.set_resource_types([caldav.CALENDAR_RESOURCE_TYPE, "{DAV:}collection"])
            return "created"

        def look():
            seen.append(self.describe(b.get_resource(rel)))
            home = b.get_resource("/user/calendars")
            seen.append(sorted(n for n, _ in home.members()) if home is not None else None)
            return "looked"

        return [create, look], seen

    def run(self):
        import shutil

        from ..world import rmtree_real
        from .sched import Scheduler

        arena = Arena(self.tag)
        try:
            FS.reset()
            pre = os.path.join(arena.path, "pre")
            work = arena.root
            from xandikos.web import XandikosBackend

            XandikosBackend(pre).create_principal("/user/", create_defaults=True)
            # sequential reference, and the number of yield points of the creation
            rmtree_real(work)
            shutil.copytree(pre, work, symlinks=True)
            b = self.fresh_backend(work)
            n_ev = [0]
            FS.hook = lambda kind, paths, mut: n_ev.__setitem__(0, n_ev[0] + 1)
            FS.active = True
            fns, _ = self.fns(b)
            fns[0]()
            FS.active = False
            FS.hook = None
            want = self.describe(b.get_resource(self.REL))
            total = n_ev[0]
            ks = self.plan["ks"] if self.plan else list(range(1, total + 1))
            if not self.plan and self.tier == "quick" and len(ks) > 40:
                rr = random.Random(H("threadcreate", self.seed))
                ks = sorted(rr.sample(ks, 40))
            for k in ks:
                rmtree_real(work)
                shutil.copytree(pre, work, symlinks=True)
                b = self.fresh_backend(work)
                fns, seen = self.fns(b)
                sch = Scheduler(2, ("forced", 0, k, [1]), random.Random(k))
                FS.reset()
                FS.hook = lambda kind, paths, mut: sch.yield_point(kind)
                FS.active = True
                try:
                    res = sch.run(fns, 0)
                finally:
                    FS.active = False
                    FS.hook = None
                self.count("schedules")
                self.count("fault.preemption", sch.switches_inside)
                got = self.describe(b.get_resource(self.REL))
                created = res[0] is not None and res[0][0] == "ok"
                if created and got != want:
                    self.violations.append({"prop": "C18", "oracle": "C18.collection-wrong-after-overlapping-create",
                                            "sig": {"oracle": "C18.collection-wrong-after-overlapping-create", "got": got[0]}, "step": None,
                                            "detail": "creating thread parked at its fs event %d/%d while another request looked at %s (it saw %s): afterwards the collection is %s, sequentially %s" % (
                                                k, total, self.REL, seen[:1], got, want)})
                    self.plan = {"ks": [k]}
                    break
            return {"violations": self.violations, "cfg": {"seed": self.seed, "threads": True, "ks": (self.plan or {}).get("ks")}, "ops": [], "plan": self.plan or {"ks": ks}, "engine": "disco-threads", "stats": self.stats,
                    "digest": hashlib.sha256(repr(sorted(self.stats.items())).encode()).hexdigest(), "layout": [], "hops": 0, "samples": [],
                    "world": {"virtual_s": 0.0, "nreq": 0}, "fs": {"bypass": len(FS.bypass), "bypass_sample": FS.bypass[:3]}}
        finally:
            FS.active = False
            FS.hook = None
            arena.destroy()
