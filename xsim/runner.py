"""Run farm: every simulated run executes in a freshly forked child of the
main process (DESIGN.md 2.1), results come back over a pipe as JSON."""

import faulthandler
import json
import os
import select
import signal
import sys
import time
import traceback

from . import env


def base_dir():
    b = os.environ.get("XSIM_BASE")
    if not b:
        b = os.path.join(env.SHM, "xsim-%d" % os.getpid())
        os.environ["XSIM_BASE"] = b
        import atexit

        pid = os.getpid()
        atexit.register(lambda: cleanup_base() if os.getpid() == pid else None)
    os.makedirs(b, exist_ok=True)
    return b


def cleanup_base():
    b = os.environ.get("XSIM_BASE")
    if b and os.path.isdir(b) and os.path.basename(b).startswith("xsim-"):
        import shutil

        from .simfs import FS

        a = FS.active
        FS.active = False
        shutil.rmtree(b, ignore_errors=True)
        FS.active = a


def _jsonable(o):
    if isinstance(o, (set, frozenset)):
        return sorted((_jsonable(x) for x in o), key=repr)
    if isinstance(o, tuple):
        return [_jsonable(x) for x in o]
    if isinstance(o, bytes):
        return o.decode("latin-1")
    if isinstance(o, dict):
        return {str(k): _jsonable(v) for k, v in o.items()}
    if isinstance(o, list):
        return [_jsonable(x) for x in o]
    return o


def _child(fn, args, wfd, timeout):
    try:
        os.environ["XSIM_CHILD"] = "1"
        faulthandler.enable()
        faulthandler.dump_traceback_later(timeout + 5, exit=True)
        try:
            res = fn(*args)
            out = {"ok": True, "result": _jsonable(res)}
        except BaseException:  # noqa: BLE001 - reported as harness error
            out = {"ok": False, "error": traceback.format_exc()[-4000:]}
        data = json.dumps(out).encode("utf-8")
        while data:
            n = os.write(wfd, data)
            data = data[n:]
    finally:
        os._exit(0)


class Farm:
    """Run `fn(*args)` for every job in forked children, `jobs` at a time."""

    def __init__(self, jobs=None, timeout=120):
        self.jobs = jobs or int(os.environ.get("XSIM_JOBS", "0")) or min(16, os.cpu_count() or 4)
        self.timeout = timeout
        base_dir()

    def map(self, fn, arglist, deadline=None, on_result=None, stop=None):
        """Yields nothing; calls on_result(index, args, outcome).  Stops
        launching new jobs after `deadline` (time.monotonic()) or when
        stop() is true."""
        from .simfs import _real

        pending = list(enumerate(arglist))
        pending.reverse()
        live = {}  # rfd -> (pid, idx, args, buf, t0)
        results = 0
        while pending or live:
            while pending and len(live) < self.jobs:
                if (deadline is not None and time.monotonic() > deadline) or (stop is not None and stop()):
                    pending.clear()
                    break
                idx, args = pending.pop()
                rfd, wfd = os.pipe()
                sys.stdout.flush()
                sys.stderr.flush()
                pid = os.fork()
                if pid == 0:
                    os.close(rfd)
                    for fd in list(live):
                        try:
                            os.close(fd)
                        except OSError:
                            pass
                    _child(fn, args, wfd, self.timeout)
                os.close(wfd)
                live[rfd] = [pid, idx, args, bytearray(), time.monotonic()]
            if not live:
                break
            ready, _, _ = select.select(list(live), [], [], 1.0)
            now = time.monotonic()
            for rfd in ready:
                ent = live[rfd]
                chunk = os.read(rfd, 1 << 20)
                if chunk:
                    ent[3] += chunk
                    continue
                os.close(rfd)
                del live[rfd]
                try:
                    os.waitpid(ent[0], 0)
                except ChildProcessError:
                    pass
                try:
                    out = json.loads(bytes(ent[3]).decode("utf-8"))
                except ValueError:
                    out = {"ok": False, "error": "child died without a result (watchdog or crash)"}
                out["wall"] = now - ent[4]
                results += 1
                if on_result is not None:
                    on_result(ent[1], ent[2], out)
            for rfd, ent in list(live.items()):
                if now - ent[4] > self.timeout + 15:
                    try:
                        os.kill(ent[0], signal.SIGKILL)
                    except ProcessLookupError:
                        pass
        return results
