"""SimClock, seeded names: wall clock and random-name seams."""

import datetime as _dt
import random
import tempfile
import time
import types
import uuid

_real_time = time.time
_real_time_ns = time.time_ns

EPOCH = 1_700_000_000.0  # 2023-11-14T22:13:20Z


class SimClock:
    def __init__(self):
        self.now = EPOCH
        self.total_advanced = 0.0
        self.jumps = 0
        self.installed = False

    def reset(self):
        self.now = EPOCH
        self.total_advanced = 0.0
        self.jumps = 0

    # The git index stores time stamps as unsigned 32-bit seconds: a clock beyond 2106 is not a
    # fault the formats under test can meet (dulwich raises struct.error writing the index), and a
    # clock before 1980 predates git.  Jumps are clamped to [1980, 2100].
    LO, HI = 315532800.0, 4102444800.0

    def advance(self, dt):
        new = min(max(self.now + dt, self.LO), self.HI)
        dt = new - self.now
        self.now = new
        if dt >= 0:
            self.total_advanced += dt
        if dt < 0 or dt > 86400:
            self.jumps += 1

    def time(self):
        return self.now

    def time_ns(self):
        return int(self.now * 1e9)

    def install(self):
        if self.installed:
            return
        time.time = self.time
        time.time_ns = self.time_ns
        clock = self

        class SimDateTime(_dt.datetime):
            @classmethod
            def now(cls, tz=None):
                if tz is None:
                    return cls.fromtimestamp(clock.now)
                return cls.fromtimestamp(clock.now, tz)

            @classmethod
            def utcnow(cls):
                return cls.fromtimestamp(clock.now, _dt.timezone.utc).replace(tzinfo=None)

        shim = types.ModuleType("datetime")
        for k in dir(_dt):
            if not k.startswith("__"):
                setattr(shim, k, getattr(_dt, k))
        shim.datetime = SimDateTime
        import xandikos.caldav as xc

        if getattr(xc, "datetime", None) is _dt:
            xc.datetime = shim
        self.installed = True


CLOCK = SimClock()


class SimNames:
    """uuid4 and tempfile names from a seeded stream."""

    def __init__(self):
        self.rng = random.Random(0)
        self.installed = False
        self._real_uuid4 = uuid.uuid4

    def reseed(self, seed):
        self.rng = random.Random(seed)

    def uuid4(self):
        return uuid.UUID(int=self.rng.getrandbits(128), version=4)

    def install(self):
        if self.installed:
            return
        uuid.uuid4 = self.uuid4
        names = self

        class Seq:
            characters = "abcdefghijklmnopqrstuvwxyz0123456789_"

            def __iter__(self):
                return self

            def __next__(self):
                return "".join(names.rng.choice(self.characters) for _ in range(8))

        tempfile._name_sequence = Seq()
        self.installed = True


NAMES = SimNames()
