#!/usr/bin/env python3
"""Verify a seeded change and run checks against it.

usage: mutant.py <agent_dir> <N> <seeded_id> <prop> [more props...]
       mutant.py --seeded <seeded_id> [props...]      (re-verify a stored change)

1. scratch worktree of /repo HEAD under /tmp; the demonstration must pass there;
2. apply the patch; the demonstration must fail; the baseline suite must still be 109/37;
3. run the quick checks of the given properties against the scratch tree
   (XSIM_REPO) and report which ones fire;
4. store patch.diff, demo.py, notes.md, meta.json under /verif/seeded/<id>/;
5. remove the scratch worktree.
"""
import json
import os
import re
import shutil
import subprocess
import sys

VERIF = os.path.dirname(os.path.dirname(os.path.abspath(__file__)))
PY = "/venv/bin/python"


def sh(cmd, **kw):
    return subprocess.run(cmd, shell=isinstance(cmd, str), capture_output=True, text=True, **kw)


def main():
    if sys.argv[1] == "--seeded":
        sid, props = sys.argv[2], sys.argv[3:]
        agent_dir = n = None
        old = json.load(open(os.path.join(VERIF, "seeded", sid, "meta.json")))
        if not props:
            props = [old["breaks_property"]] + [p for p in old.get("checks", {}) if p != old["breaks_property"]]
    else:
        agent_dir, n, sid, props = sys.argv[1], sys.argv[2], sys.argv[3], sys.argv[4:]
        old = {}
    budget = os.environ.get("MUT_BUDGET", "40")
    scratch = "/tmp/mv-%s" % sid
    sh("git -C /repo worktree remove --force %s" % scratch)
    r = sh("git -C /repo worktree add --detach %s HEAD" % scratch)
    assert r.returncode == 0, r.stderr
    out = os.path.join(VERIF, "seeded", sid)
    os.makedirs(out, exist_ok=True)
    try:
        if agent_dir is not None:
            patch = open(os.path.join(agent_dir, "mutant%s.patch" % n)).read()
            demo = open(os.path.join(agent_dir, "demo%s.py" % n)).read()
            mdp = os.path.join(agent_dir, "mutant%s.md" % n)
            notes = open(mdp).read() if os.path.exists(mdp) else ""
            tree = '__import__("os").environ.get("XANDIKOS_TREE", "/repo")'
            demo2 = demo.replace('"%s"' % agent_dir, tree).replace("'%s'" % agent_dir, tree).replace(agent_dir, "/repo")
            demo2 = "import sys as _s; _s.path.insert(0, %r)  # sandbox_compat lives next to the seeded changes\n" % os.path.join(VERIF, "seeded") + demo2
            with open(os.path.join(out, "demo.py"), "w") as f:
                f.write(demo2)
            with open(os.path.join(out, "patch.diff"), "w") as f:
                f.write(patch)
            with open(os.path.join(out, "notes.md"), "w") as f:
                f.write(notes)
        env = dict(os.environ, XANDIKOS_TREE=scratch, PYTHONDONTWRITEBYTECODE="1")
        meta = {"id": sid, "breaks_property": old.get("breaks_property", props[0]),
                "source": "independent sub-agent given only the property text and a scratch worktree", "ran": []}
        for key in ("needs_to_manifest", "first_pass_caught_by", "note"):
            if old.get(key) is not None:
                meta[key] = old[key]
        d0 = sh([PY, os.path.join(out, "demo.py")], env=env, timeout=600)
        meta["demo_on_unchanged_tree_exit"] = d0.returncode
        a = sh("git -C %s apply %s" % (scratch, os.path.join(out, "patch.diff")))
        meta["patch_applies"] = a.returncode == 0
        if a.returncode != 0:
            print("patch does not apply:", a.stderr)
        d1 = sh([PY, os.path.join(out, "demo.py")], env=env, timeout=600)
        meta["demo_with_change_exit"] = d1.returncode
        meta["demo_with_change_tail"] = (d1.stdout + d1.stderr)[-400:]
        t = sh("cd %s && %s -m pytest -q -p no:cacheprovider --timeout=900 --continue-on-collection-errors xandikos/tests 2>&1 | tail -1" % (scratch, PY), timeout=900)
        meta["test_suite_with_change"] = t.stdout.strip()
        m = re.search(r"(\d+) failed, (\d+) passed", t.stdout)
        meta["suite_ok"] = bool(m and m.group(2) == "109" and m.group(1) == "37")
        meta["valid"] = bool(meta["patch_applies"] and d0.returncode == 0 and d1.returncode != 0 and meta["suite_ok"])
        print(json.dumps({k: meta[k] for k in ("patch_applies", "demo_on_unchanged_tree_exit", "demo_with_change_exit", "test_suite_with_change", "valid")}))
        caught = {}
        if meta["valid"]:
            for p in props:
                c = sh([PY, "-m", "xsim", "check", p, "--tier", os.environ.get("MUT_TIER", "quick"), "--budget", budget], cwd=VERIF, env=dict(os.environ, XSIM_REPO=scratch), timeout=3600)
                lines = [l for l in c.stdout.splitlines() if l.startswith(("VIOLATION", "  oracle", "HARNESS"))]
                caught[p] = {"exit": c.returncode, "lines": lines[:6], "summary": c.stdout.strip().splitlines()[-1] if c.stdout.strip() else c.stderr[-300:]}
                meta["ran"].append("XSIM_REPO=<scratch worktree with the change> /venv/bin/python -m xsim check %s --tier quick --budget %s -> exit %d" % (p, budget, c.returncode))
                print(p, "exit", c.returncode, *lines[:4], sep="\n   ")
                for l in lines:
                    mm = re.search(r"replay=(\S+)", l)
                    if mm and os.path.exists(mm.group(1)):
                        shutil.copy(mm.group(1), os.path.join(out, "replay-%s.json" % p))
                        os.remove(mm.group(1))
        meta["checks"] = caught
        meta["caught_by"] = sorted(p for p, c in caught.items() if c["exit"] == 1)
        with open(os.path.join(out, "meta.json"), "w") as f:
            json.dump(meta, f, indent=1)
    finally:
        sh("git -C /repo worktree remove --force %s" % scratch)


if __name__ == "__main__":
    main()
