"""Tally violation signatures over many seeds (development aid)."""
import collections, json, os, sys
sys.path.insert(0, os.path.dirname(os.path.dirname(os.path.abspath(__file__))))
from xsim import env
if __name__ == "__main__":
    prop, n = sys.argv[1], int(sys.argv[2]); tier = sys.argv[3] if len(sys.argv) > 3 else "quick"
    os.environ.setdefault("XSIM_ENV", "")
    if os.environ.get("XSIM_ENV") != "1":
        e = dict(os.environ); e.update(env.FIXED); os.execve(sys.executable, [sys.executable] + sys.argv, e)
    sys.path.insert(0, env.repo_path())
    from xsim import world, rng, runner
    from xsim.__main__ import spec_for
    world.install_seams()
    spec = spec_for(prop); farm = runner.Farm(timeout=spec.run_timeout)
    tally = collections.Counter(); ex = {}; errs = []
    def on(i, a, o):
        if not o.get("ok"): errs.append(o.get("error", "")[-600:]); return
        for v in o["result"].get("violations", []):
            k = json.dumps(v["sig"], sort_keys=True); tally[k] += 1; ex.setdefault(k, (a[1], v["detail"][:400]))
    farm.map(spec.run, [(prop, rng.run_seed(777, prop, tier, i), tier, "sv-%d" % i) for i in range(n)], on_result=on)
    runner.cleanup_base()
    for k, c in tally.most_common(): print(c, k, "\n     e.g. seed", ex[k][0], ex[k][1])
    print("errors", len(errs)); [print(e) for e in errs[:2]]
