"""Per-property check specifications."""

import hashlib
import json
import math

from .check import Spec


def ddmin(items, test_many):
    """Delta debugging over a list; test_many(list of candidates) -> list of
    bool (True = still fails the same way)."""
    items = list(items)
    n = 2
    while len(items) >= 2:
        chunk = int(math.ceil(len(items) / n))
        comps = []
        for i in range(0, len(items), chunk):
            comps.append(items[:i] + items[i + chunk:])
        res = test_many(comps)
        hit = next((i for i, r in enumerate(res) if r), None)
        if hit is not None:
            items = comps[hit]
            n = max(n - 1, 2)
        else:
            if n >= len(items):
                break
            n = min(len(items), n * 2)
    if len(items) == 1:
        if test_many([[]])[0]:
            items = []
    return items


def ops_digest(ops):
    return hashlib.sha1(json.dumps(ops, sort_keys=True).encode()).hexdigest()[:16]


HIST_RULES = {
    "C01": "seeded request histories (PUT/POST/DELETE/MKCOL/MKCALENDAR/PROPPATCH/GET/PROPFIND/REPORT + restart/evict/clock/chunking) over tree-git, bare-git and git-config collections, both front ends, three prefixes; audited after every step. Non-trivial: >=2 successful writes to >=2 distinct paths and >=1 non-success write; distinct by digest of the op list",
    "C02": "C01 histories with a view-heavy mix; every audit compares PUT/GET/HEAD/PROPFIND(0,1)/multiget/calendar-query/sync etags. Non-trivial: some path observed with >=3 distinct bodies; distinct by op-list digest",
    "C03": "histories biased to conditional PUT/DELETE/GET/HEAD with current/stale/foreign/list/*/empty/unquoted/garbage validators on present and absent resources. Non-trivial: some path with both a refused and an executed conditional request; distinct by op-list digest",
    "C06": "histories over few UIDs and many names with UID moves, deletes, restarts and cache evictions. Non-trivial: >=1 real UID conflict attempted or >=1 UID reused after its holder went away; distinct by op-list digest",
    "C07": "write/delete/no-op/revert histories; sync-collection with every recorded token, the empty token and never-issued tokens. Non-trivial: >=1 (token i, report j) pair with both changed and removed members; distinct by op-list digest",
    "C08": "histories with reverts, refused and failed requests; ctag/sync-token/getetag observed at every audit. Non-trivial: the history returns to an earlier (members, metadata) state; distinct by op-list digest",
    "C09": "histories incl. no-op rewrites and property changes with clock jumps; commits/trees read by an independent dulwich walker after every step, real git fsck/status every 5th step and at the end. Non-trivial: >=1 no-op rewrite and >=1 property change; distinct by op-list digest",
    "C14": "histories with bodies of the invalid classes and re-uploads of served bytes. Non-trivial: >=1 invalid upload and >=1 re-upload; distinct by op-list digest",
    "C15": "PROPPATCH / extended MKCOL / MKCALENDAR set+remove over the settable properties, values from a grammar with config-file metacharacters, restarts and evictions, file and git-config metadata back ends. Non-trivial: >=2 distinct (collection, property, value) read back; distinct by op-list digest",
    "C16": "histories over URL-significant and non-ASCII member names; every href of every listing, Location header and href-valued property is dereferenced as sent. Non-trivial: >=1 special-character name listed and >=5 hrefs dereferenced; distinct by op-list digest",
    "C17": "multiget reports with mixed href lists at arbitrary points of write histories. Non-trivial: >=3 href classes exercised; distinct by op-list digest",
}


STORE_PROPS = ("C01", "C02", "C03", "C06")
CONC_PROPS = ("C02", "C03", "C07", "C08", "C15", "C17")


class HistSpec(Spec):
    engine = "E-HIST"
    level = "exploration"
    quick_budget = 45
    thorough_budget = 480
    assumptions = (
        "sampling: a clean batch is evidence, not proof",
        "WSGI gateway behaviour is a PEP 3333 stub; TCP segmentation is emulated by data_received chunking",
        "dulwich/icalendar API adapters (compat.py) stand in for APIs the pinned tree was written for",
        "process-level faults only (restart, cache eviction, clock jumps, chunked delivery); power loss is out of scope",
    )

    def __init__(self, prop):
        self.prop = prop
        self.rule = HIST_RULES[prop]

    # -- execution (child process) -----------------------------------------
    def run(self, prop, seed, tier, tag):
        from . import world
        from .engines import hist

        world.install_seams()
        if prop in CONC_PROPS and seed % 3 == 1:
            from .engines import conc

            return conc.ConcRun(prop, conc.make_config(prop, seed, tier), tag=tag).run()
        if (prop == "C07" and seed % 23 == 7) or (prop == "C01" and seed % 29 == 11):
            from .engines import bigsync

            return bigsync.BigSyncRun(dict(bigsync.make_config(seed, tier), prop=prop), tag=tag, prop=prop).run()
        if prop == "C09" and seed % 5 == 0:
            from .engines import sched

            return sched.SchedRun(seed, tier, tag, prop="C09").run()
        if prop in STORE_PROPS and (seed % 4 == 0 or (prop == "C06" and seed % 4 == 2)):
            from .engines import store

            return store.StoreRun(prop, store.make_config(prop, seed, tier), tag=tag).run()
        cfg = hist.make_config(prop, seed, tier)
        return hist.HistRun(prop, cfg, tag=tag).run()

    def replay(self, doc, tag):
        from . import world
        from .engines import hist

        world.install_seams()
        if doc.get("engine") == "store":
            from .engines import store

            return store.StoreRun(doc["prop"], doc["cfg"], ops=doc["ops"], tag=tag).run()
        if doc.get("engine") == "conc":
            from .engines import conc

            return conc.ConcRun(doc["prop"], doc["cfg"], plan=doc["plan"], tag=tag).run()
        if doc.get("engine") == "bigsync":
            from .engines import bigsync

            return bigsync.BigSyncRun(doc["cfg"], tag=tag, prop=doc["cfg"].get("prop", "C07")).run()
        if doc.get("engine") == "sched":
            from .engines import sched

            return sched.SchedRun(doc.get("seed", 0), "thorough", tag, plan=doc["plan"], prop=doc["prop"]).run()
        return hist.HistRun(doc["prop"], doc["cfg"], ops=doc["ops"], tag=tag).run()

    # -- aggregation ---------------------------------------------------------
    def nontrivial_keys(self, res):
        if res.get("engine") in ("sched", "conc", "bigsync"):
            return []
        nt = res.get("nontrivial") or {}
        p = self.prop
        ok = False
        if p == "C01":
            ok = (len(nt.get("written", [])) >= 2 or res.get("engine") == "store") and nt.get("succ", 0) >= 2 and nt.get("fail", 0) >= 1
        elif p == "C02":
            ok = len(nt.get("paths3", [])) >= 1
        elif p == "C03":
            ok = bool(set(map(str, nt.get("refused", []))) & set(map(str, nt.get("executed", []))))
        elif p == "C06":
            ok = nt.get("conflicts", 0) >= 1 or nt.get("reuse", 0) >= 1
        elif p == "C07":
            ok = len(nt.get("pairs", [])) >= 1
        elif p == "C08":
            ok = len(nt.get("returns", [])) >= 1
        elif p == "C09":
            ok = nt.get("noop", 0) >= 1 and nt.get("propchange", 0) >= 1
        elif p == "C14":
            ok = nt.get("invalid", 0) >= 1 and nt.get("reupload", 0) >= 1
        elif p == "C15":
            ok = len(nt.get("readback", [])) >= 2
        elif p == "C16":
            ok = len(nt.get("special", [])) >= 1 and nt.get("deref", 0) >= 5
        elif p == "C17":
            ok = len(nt.get("classes", [])) >= 3
        return [ops_digest(res.get("ops", []))] if ok else []

    def sample(self, res):
        if res.get("engine") in ("store", "sched", "conc", "bigsync"):
            return None
        ops = res.get("ops", [])
        short = []
        for o in ops[:12]:
            o = dict(o)
            if "body" in o:
                o["body"] = o["body"][:60] + ("..." if len(o["body"]) > 60 else "")
            short.append(o)
        c = res.get("cfg", {})
        return {"config": {k: c.get(k) for k in ("frontend", "prefix", "strict", "index_threshold", "names", "preseed")}, "ops": short, "n_ops": len(ops)}

    def collect(self, agg, res):
        agg.add_stats({"model_resyncs": res.get("resyncs", 0), "clock_jumps": res.get("clock_jumps", 0)})
        w = res.get("world") or {}
        c = res.get("cfg", {})
        if res.get("engine") == "sched":
            agg.add_stats({"overlapping_request_schedules": res.get("schedules", 0)})
            return
        if res.get("engine") == "conc":
            agg.add_stats({"overlapping_http_request_runs": 1, "overlapping_http_interleavings": len(res.get("signatures", []))})
            if res.get("samples") and not agg.extra.get("conc_sample"):
                agg.extra["conc_sample"] = True
                agg.samples.append({"overlapping_http_requests": res["samples"][0]})
            return
        if res.get("engine") == "store":
            agg.add_stats({"store_api_runs": 1, "store_api.backend." + str(c.get("backend")): 1})
            if len(agg.samples) < 4 and res.get("samples") and not agg.extra.get("store_sample"):
                agg.extra["store_sample"] = True
                agg.samples.append({"store_api": res["samples"][0]})
            return
        agg.add_stats({"config.frontend." + str(c.get("frontend")): 1, "config.prefix." + str(c.get("prefix")): 1})

    def essential(self, agg):
        if agg.nreq < 50:
            return "fewer than 50 requests were served"
        if len(agg.nontrivial) < 2:
            return "fewer than 2 non-trivial histories"
        return None

    # -- replay / minimisation --------------------------------------------------
    def replay_doc(self, prop, v, res):
        if res.get("engine") == "conc":
            plan = dict(res["plan"], variants=[v["variant"]]) if v.get("variant") else res["plan"]
            return {"engine": "conc", "prop": prop, "seed": v.get("seed"), "cfg": res["cfg"], "plan": plan, "expect": {"oracle": v["oracle"], "sig": v["sig"]},
                    "detail": v.get("detail"), "digest": None, "minimised": False}
        if res.get("engine") == "sched":
            plan = res["plan"]
            if v.get("schedule") is not None:
                plan = dict(plan, schedules=[v["schedule"]])
            return {"engine": "sched", "prop": prop, "seed": v.get("seed"), "plan": plan, "expect": {"oracle": v["oracle"], "sig": v["sig"]},
                    "detail": v.get("detail"), "digest": None, "minimised": False}
        return {
            "engine": res.get("engine", "hist"),
            "prop": prop,
            "seed": v.get("seed"),
            "cfg": res["cfg"],
            "ops": res["ops"],
            "expect": {"oracle": v["oracle"], "sig": v["sig"]},
            "detail": v.get("detail"),
            "digest": res.get("digest"),
            "minimised": True,
        }

    def minimise(self, prop, v, res, farm):
        if res.get("engine") in ("sched", "conc", "bigsync"):
            return self.replay_doc(prop, v, res)
        want = (v["oracle"], json.dumps(v["sig"], sort_keys=True))
        cfg = dict(res["cfg"])
        state = {"last": None}

        def test_many(cands, cfgs=None):
            docs = [{"prop": prop, "engine": res.get("engine", "hist"), "cfg": (cfgs[i] if cfgs else cfg), "ops": c} for i, c in enumerate(cands)]
            outs = {}
            farm.map(self.replay, [(d, "min-%s-%d" % (prop, i)) for i, d in enumerate(docs)], on_result=lambda i, a, o: outs.__setitem__(i, o))
            ret = []
            for i in range(len(docs)):
                o = outs.get(i, {})
                ok = False
                if o.get("ok"):
                    for x in o["result"].get("violations", []):
                        if (x["oracle"], json.dumps(x["sig"], sort_keys=True)) == want:
                            ok = True
                            state["last"] = (docs[i], o["result"], x)
                            break
                ret.append(ok)
            return ret

        ops = list(res["ops"])
        # the run stops at the first violation, so the tail is already gone
        ops = ddmin(ops, test_many)
        # simplify the configuration
        for key, val in () if res.get("engine") == "store" else (("preseed", []), ("paranoid", False), ("index_threshold", None), ("strict", True), ("listing", False), ("prefix", "/"), ("names", "simple")):
            if cfg.get(key) == val:
                continue
            c2 = dict(cfg)
            c2[key] = val
            if test_many([ops], [c2])[0]:
                cfg = c2
        # drop delivery faults from individual ops
        slim = [{k: x for k, x in o.items() if k != "chunks"} for o in ops]
        if slim != ops and test_many([slim])[0]:
            ops = slim
        # confirm and fetch digest
        if not test_many([ops])[0]:
            return None
        d, r, x = state["last"]
        first = r.get("digest")
        if not test_many([ops])[0] or state["last"][1].get("digest") != first:
            return None  # not reproducible exactly: caller falls back, flagged unminimised
        doc = self.replay_doc(prop, dict(v, oracle=x["oracle"], sig=x["sig"], detail=x["detail"]), {"cfg": cfg, "ops": ops, "digest": first, "engine": res.get("engine", "hist")})
        doc["original_ops"] = len(res["ops"])
        return doc
