"""E-HIST variant for C07: a collection with more members than any server-side page could hold.

A thousand-odd members arrive in one commit behind the server's back (a restored backup, `git pull`),
then a few ordinary requests; sync-collection from the empty token, from the token before the bulk
commit and from the token after it must each be the exact difference, whatever its size."""

import hashlib
import os
import random
import subprocess

from .. import dav, gen
from ..observe import rel_of
from ..rng import H
from ..simclock import CLOCK
from ..simfs import FS
from ..world import Arena, World

CAL = "/user/calendars/calendar/"


class BigSyncRun:
    def __init__(self, cfg, tag="big", prop="C07"):
        self.cfg = cfg
        self.tag = tag
        self.prop = prop
        self.violations = []
        self.stats = {}

    def faulted_writes(self, w, r, before):
        """C01 on a large collection: the index of a thousand entries is written in several chunks, so
        an ENOSPC/EIO can land in the middle of it.  An acknowledged PUT is there afterwards; a failed
        one leaves the collection readable with everything it had."""
        import errno

        FS.log = []
        base = FS.mut_seq
        rr = w.req("PUT", CAL + "probe.ics", [("Content-Type", "text/calendar")], gen.ics(r, "probe", comp="VEVENT", rich=0))
        events = list(FS.log)
        FS.log = None
        if rr is None or rr.status not in (201, 204):
            return
        pos = [i + 1 for i, (kind, paths, nb) in enumerate(events) if kind in ("write", "replace", "rename") and paths and os.path.basename(str(paths[0])).startswith("index")]
        if not pos:
            return
        picks = sorted(set([pos[0], pos[len(pos) // 2], pos[-1]] + ([pos[-2]] if len(pos) > 1 else [])))
        have = dict(before)
        have["probe.ics"] = None
        for j, k in enumerate(picks):
            name = "fw%d.ics" % j
            FS.err_fired = []
            FS.err_at = {FS.mut_seq + k: r.choice([errno.ENOSPC, errno.EIO])}
            pr = w.req("PUT", CAL + name, [("Content-Type", "text/calendar")], gen.ics(r, "fw-%d" % j, comp="VEVENT", rich=0))
            FS.err_at = {}
            fired = bool(FS.err_fired)
            FS.err_fired = []
            if fired:
                self.count("fault.io_error_in_index_write")
            st = pr.status if pr is not None else None
            try:
                now = self.listing(w)
            except Exception as e:  # noqa: BLE001
                self.violations.append({"prop": "C01", "oracle": "C01.collection-unreadable-after-write", "sig": {"oracle": "C01.collection-unreadable-after-write", "size": "large", "io_fault": fired}, "step": None,
                                        "detail": "PUT %s -> %s with an I/O error at mutation %d of the request (index write): listing now fails: %r" % (name, st, k, e)})
                return
            g = w.req("GET", CAL + name)
            if st in (201, 204):
                if name not in now or g is None or g.status != 200:
                    self.violations.append({"prop": "C01", "oracle": "C01.state-differs-from-acknowledged", "sig": {"oracle": "C01.state-differs-from-acknowledged", "size": "large", "io_fault": fired, "what": "missing"}, "step": None,
                                            "detail": "PUT %s acknowledged (%s) although an I/O error hit the index write (mutation %d): listed=%s GET=%s" % (name, st, k, name in now, g.status if g else None)})
                have[name] = None
            missing = [n for n in have if n not in now and n != name]
            if missing:
                self.violations.append({"prop": "C01", "oracle": "C01.other-member-lost", "sig": {"oracle": "C01.other-member-lost", "size": "large", "io_fault": fired}, "step": None,
                                        "detail": "after PUT %s -> %s with an I/O error in the index write: %d members are gone (%s...)" % (name, st, len(missing), missing[:3])})
                return

    def count(self, k, n=1):
        self.stats[k] = self.stats.get(k, 0) + n

    def v(self, detail, **sig):
        s = {"oracle": "C07.wrong-change-list", "size": "large"}
        s.update(sig)
        self.violations.append({"prop": "C07", "oracle": "C07.wrong-change-list", "sig": s, "step": None, "detail": detail[:600]})

    def token(self, w):
        r = w.req("PROPFIND", CAL, [("Depth", "0"), dav.XML_CT], dav.propfind_body([dav.P_SYNCTOKEN]))
        rs, _ = dav.parse_multistatus(r.body)
        return rs[0].text(dav.P_SYNCTOKEN)

    def listing(self, w):
        r = w.req("PROPFIND", CAL, [("Depth", "1"), dav.XML_CT], dav.propfind_body([dav.P_GETETAG]))
        rs, _ = dav.parse_multistatus(r.body)
        out = {}
        for ms in rs:
            rel = rel_of(w, dav.href_path(ms.href or "", w.target(CAL)))
            if rel and rel != CAL and rel.startswith(CAL):
                out[rel[len(CAL):]] = ms.text(dav.P_GETETAG)
        return out

    def sync(self, w, tok):
        r = w.req("REPORT", CAL, [dav.XML_CT], dav.sync_body(tok))
        self.count("requests")
        if r is None or r.status != 207:
            return r.status if r is not None else None, None, None, None
        rs, extra = dav.parse_multistatus(r.body)
        changed, removed, other = {}, set(), []
        for ms in rs:
            rel = rel_of(w, dav.href_path(ms.href or "", w.target(CAL)))
            if rel is None or not rel.startswith(CAL) or not rel[len(CAL):] or "/" in rel[len(CAL):]:
                other.append((ms.href, ms.status))
                continue
            if ms.status == 404:
                removed.add(rel[len(CAL):])
            else:
                changed[rel[len(CAL):]] = ms.text(dav.P_GETETAG)
        return 207, changed, removed, (extra.get("sync-token"), other)

    def judge(self, what, got, old, now, cur_token):
        st, changed, removed, meta = got
        if st != 207:
            self.v("%s: status %s" % (what, st), status=st)
            return
        want_changed = {n: e for n, e in now.items() if old.get(n) != e}
        want_removed = {n for n in old if n not in now}
        problems = []
        if set(changed) != set(want_changed):
            problems.append("changed: %d reported, %d expected (missing %s, extra %s)" % (len(changed), len(want_changed), sorted(set(want_changed) - set(changed))[:3], sorted(set(changed) - set(want_changed))[:3]))
        elif any(changed[n] != want_changed[n] for n in changed):
            problems.append("etags differ")
        if removed != want_removed:
            problems.append("removed: got %s want %s" % (sorted(removed)[:3], sorted(want_removed)[:3]))
        if meta[1]:
            problems.append("other responses %s" % meta[1][:2])
        if meta[0] != cur_token:
            problems.append("token %s is not the current %s" % (meta[0], cur_token))
        if problems:
            self.v("%s (%d members): %s" % (what, len(now), "; ".join(problems)))

    def run(self):
        arena = Arena(self.tag)
        CLOCK.reset()
        FS.reset()
        r = random.Random(H("bigsync", self.cfg["seed"]))
        w = World(arena, self.cfg)
        try:
            w.boot()
            w.req("PUT", CAL + "first.ics", [("Content-Type", "text/calendar")], gen.ics(r, "first", comp="VEVENT", rich=0))
            t0, l0 = self.token(w), self.listing(w)
            w.shutdown()
            # the bulk arrives as one commit made with git itself
            d = os.path.join(arena.root, CAL.strip("/"))
            n = self.cfg["members"]
            for i in range(n):
                with open(os.path.join(d, "bulk%04d.ics" % i), "wb") as f:
                    f.write(("BEGIN:VCALENDAR\r\nVERSION:2.0\r\nPRODID:-//xsim//bulk//EN\r\nBEGIN:VEVENT\r\nUID:bulk-%d\r\nDTSTAMP:20200101T000000Z\r\nDTSTART:20200102T000000Z\r\nSUMMARY:b%d\r\nEND:VEVENT\r\nEND:VCALENDAR\r\n" % (i, i)).encode())
            env = dict(os.environ, GIT_CONFIG_GLOBAL="/dev/null")
            for cmd in (["git", "-c", "safe.directory=*", "add", "-A"], ["git", "-c", "safe.directory=*", "-c", "user.name=bulk", "-c", "user.email=bulk@example.com", "commit", "-q", "-m", "bulk"]):
                subprocess.run(cmd, cwd=d, env=env, check=True, capture_output=True, timeout=120)
            self.count("members", n)
            FS.reset()
            w.boot()
            t1, l1 = self.token(w), self.listing(w)
            if len(l1) != n + 1:
                self.v("PROPFIND lists %d members after a bulk commit of %d" % (len(l1), n), what="listing")
            if self.prop == "C01":
                self.faulted_writes(w, r, l1)
                return self.finish(w, arena)
            self.judge("sync from the empty token", self.sync(w, ""), {}, l1, t1)
            self.judge("sync from the token before the bulk commit", self.sync(w, t0), l0, l1, t1)
            # a few ordinary requests on top
            w.req("DELETE", CAL + "bulk%04d.ics" % r.randrange(n))
            w.req("DELETE", CAL + "first.ics")
            for j in range(3):
                w.req("PUT", CAL + "late%d.ics" % j, [("Content-Type", "text/calendar")], gen.ics(r, "late-%d" % j, comp="VEVENT", rich=0))
            t2, l2 = self.token(w), self.listing(w)
            self.judge("sync from the token after the bulk commit", self.sync(w, t1), l1, l2, t2)
            self.judge("sync from the first token", self.sync(w, t0), l0, l2, t2)
            self.judge("second sync from the empty token", self.sync(w, ""), {}, l2, t2)
        finally:
            self._nreq = w.nreq
            w.shutdown()
            FS.active = False
            arena.destroy()
        return self.finish(w, None)

    def finish(self, w, arena):
        nreq = getattr(self, "_nreq", w.nreq)
        seen, uniq = set(), []
        for x in self.violations:
            k = repr(sorted(x["sig"].items()))
            if k not in seen:
                seen.add(k)
                uniq.append(x)
        return {"violations": uniq[:3], "engine": "bigsync", "cfg": self.cfg, "ops": [], "stats": self.stats, "nontrivial": {},
                "digest": hashlib.sha256(repr(sorted(self.stats.items())).encode()).hexdigest(), "resyncs": 0, "clock_jumps": 0,
                "world": {"virtual_s": 0.0, "nreq": nreq}, "fs": {"bypass": len(FS.bypass), "bypass_sample": FS.bypass[:3]}, "samples": []}


def make_config(seed, tier):
    r = random.Random(H("bigsynccfg", seed))
    return {"seed": seed, "frontend": r.choice(["wsgi", "aiohttp"]), "prefix": r.choice(["/", "/dav/"]), "autocreate": "defaults", "strict": True, "listing": False,
            "members": r.choice([1001, 1024, 1500]) if tier == "quick" else r.choice([1001, 2500, 4097])}
