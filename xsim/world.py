"""A simulated deployment: arena directory + server process + client seam."""

import gc
import os
import shutil
import sys
import tempfile
import traceback
import urllib.parse

from . import env, server
from .rng import H
from .simclock import CLOCK, NAMES
from .simfs import FS, SimCrash, _real

_installed = False


def install_seams():
    """Install every seam once per process (inert until activated)."""
    global _installed
    if _installed:
        return
    from . import compat

    compat.install()
    server.quiet_logging()
    FS.install()
    CLOCK.install()
    NAMES.install()
    sys.unraisablehook = lambda *a: None
    import warnings

    warnings.simplefilter("ignore")
    _installed = True


def rmtree_real(path):
    a = FS.active
    FS.active = False
    try:
        shutil.rmtree(path, ignore_errors=True)
    finally:
        FS.active = a


class Arena:
    def __init__(self, tag):
        base = os.environ.get("XSIM_BASE") or os.path.join(env.SHM, "xsim-%d" % os.getpid())
        # three extra levels, so that a request escaping the root by a few ".." still
        # lands inside the run's own scratch tree (which is removed afterwards)
        self.top = os.path.join(base, tag)
        rmtree_real(self.top)
        self.path = os.path.join(self.top, "n1", "n2", "n3")
        os.makedirs(self.path)
        self.root = os.path.join(self.path, "root")
        self.tmp = os.path.join(self.path, "tmp")
        self.outside = os.path.join(self.path, "outside")
        os.makedirs(self.root)
        os.makedirs(self.tmp)
        self._old_tmp = tempfile.tempdir
        tempfile.tempdir = self.tmp

    def rel(self, p):
        if p.startswith(self.path):
            return p[len(self.path):] or "/"
        return p

    def destroy(self):
        tempfile.tempdir = self._old_tmp
        rmtree_real(self.top)


class World:
    """cfg keys: frontend, prefix, principal, autocreate, index_threshold,
    paranoid, strict, seed, preseed (list of dicts), listing (bool)."""

    def __init__(self, arena, cfg):
        self.arena = arena
        self.cfg = cfg
        self.srv = None
        self.errors = []  # harness-visible 5xx tracebacks (diagnostics only)
        self.nreq = 0
        self.restarts = 0
        self.evictions = 0
        self.virtual_s = 0.0
        self.on_req = None
        self.reseed(0)

    def reseed(self, salt):
        import random

        seed = self.cfg.get("seed", 0)
        NAMES.reseed(H("names", seed, salt))
        if self.cfg.get("listing", True):
            FS.listing_rng = random.Random(H("listing", seed, salt))
        else:
            FS.listing_rng = None

    @property
    def prefix(self):
        p = self.cfg.get("prefix", "/")
        return p if p.endswith("/") else p + "/"

    def target(self, relpath):
        return self.prefix.rstrip("/") + urllib.parse.quote(relpath, safe="/")

    def boot(self):
        c = self.cfg
        self.srv = server.Server(
            self.arena.root,
            frontend=c.get("frontend", "aiohttp"),
            prefix=self.prefix,
            principal=c.get("principal", "/user/"),
            autocreate=c.get("autocreate", "defaults"),
            index_threshold=c.get("index_threshold"),
            paranoid=c.get("paranoid", False),
            strict=c.get("strict", True),
        )
        FS.active = True
        if c.get("sim_mtime"):
            FS.mtime_source = CLOCK.time_ns
        self.srv.start()

    def restart(self):
        self.restarts += 1
        if self.srv.started:
            self.srv.stop()
        self.virtual_s += self.srv.virtual_s
        self.srv.virtual_s = 0.0
        gc.collect()
        self.srv.start()

    def crash_restart(self):
        """After SimCrash: drop the process, thaw the disk, start again."""
        FS.active = False
        self.srv.kill()
        gc.collect()
        keep = (FS.listing_rng, FS.observers, FS.mtime_source)
        FS.reset()
        FS.listing_rng, FS.observers, FS.mtime_source = keep
        FS.active = True
        self.srv.start()

    def evict(self):
        self.evictions += 1
        server.drop_store_cache()
        gc.collect()

    def shutdown(self):
        try:
            if self.srv is not None and self.srv.started:
                self.srv.stop()
                self.virtual_s += self.srv.virtual_s
        finally:
            FS.active = False

    def req(self, method, relpath=None, headers=None, body=b"", target=None, **kw):
        if target is None:
            target = self.target(relpath)
        self.nreq += 1
        try:
            r = self.srv.request(method, target, headers, body, **kw)
        except SimCrash:
            raise
        except Exception as e:  # what a WSGI gateway turns into a 500
            tb = traceback.format_exc(limit=-6)
            self.errors.append((method, target, tb))
            r = server.Resp(500, [("X-Sim-Exception", type(e).__name__)], tb.encode("utf-8", "replace"))
        if r is not None and r.status == 207:
            # a DAV:error is delivered as a one-response multistatus whose
            # inner status is the outcome of the request
            inner = _inner_status(r.body, need_error=method not in ("PUT", "POST", "DELETE", "MKCOL", "MKCALENDAR", "GET", "HEAD"))
            if inner is not None:
                r.outer_status = 207
                r.status = inner
        if self.on_req is not None:
            import hashlib

            self.on_req("req", method, target, r.status if r is not None else None,
                        hashlib.sha1(r.body or b"").hexdigest()[:12] if r is not None else None, FS.mut_seq)
        if r is not None and r.status >= 500 and r.status != 507:
            if len(self.errors) < 50:
                self.errors.append((method, target, (r.body or b"")[-600:].decode("utf-8", "replace")))
        return r


def _inner_status(body, need_error=False):
    from xml.etree import ElementTree as ET

    try:
        root = ET.fromstring(body)
    except ET.ParseError:
        return None
    if root.tag != "{DAV:}multistatus":
        return None
    rs = [e for e in root if e.tag == "{DAV:}response"]
    if len(rs) != 1:
        return None
    if need_error and not any(c.tag == "{DAV:}error" for c in rs[0]):
        return None
    for c in rs[0]:
        if c.tag == "{DAV:}status":
            try:
                return int((c.text or "").split()[1])
            except (IndexError, ValueError):
                return None
    return None


def preseed_collection(root, relpath, backend, kind):
    """Create a collection behind the server's back (before start) with the
    real store code: backend 'bare' (bare git), 'gitcfg' (tree git whose
    metadata lives in .git/config) or 'tree'."""
    from xandikos.store.git import BareGitStore, TreeGitStore

    p = os.path.join(root, relpath.strip("/"))
    os.makedirs(os.path.dirname(p), exist_ok=True)
    if backend == "bare-empty":
        st = BareGitStore.create(p)
    elif backend == "bare":
        st = BareGitStore.create(p)
        st.set_type(kind)
    elif backend == "gitcfg":
        st = TreeGitStore.create(p)
        cfg = st.repo.get_config()
        cfg.set(b"xandikos", b"type", kind.encode())
        from io import BytesIO

        f = BytesIO()
        cfg.write_to_file(f)
        st.repo._put_named_file("config", f.getvalue())
    elif backend == "untyped":
        # somebody's plain git repository of .ics / .vcf files (no type recorded anywhere): its kind
        # is what its contents say
        from xandikos.icalendar import ICalendarFile
        from xandikos.vcard import VCardFile

        st = TreeGitStore.create(p)
        st.load_extra_file_handler(ICalendarFile)
        st.load_extra_file_handler(VCardFile)
        import random as _r

        from . import gen

        rr = _r.Random(7)
        if kind == "calendar":
            st.import_one("first.ics", "text/calendar", [gen.ics(rr, "untyped-1", comp="VEVENT", rich=0)])
        else:
            st.import_one("first.vcf", "text/vcard", [gen.vcf(rr, uid="untyped-card-1")])
    else:
        st = TreeGitStore.create(p)
        st.set_type(kind)
    st.repo.close()
    return p
