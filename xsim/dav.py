"""Client-side WebDAV helpers: request bodies and multistatus parsing."""

import urllib.parse
from xml.etree import ElementTree as ET

DAV = "DAV:"
CAL = "urn:ietf:params:xml:ns:caldav"
CARD = "urn:ietf:params:xml:ns:carddav"
CS = "http://calendarserver.org/ns/"
APPLE = "http://apple.com/ns/ical/"
INFIT_AB = "http://inf-it.com/ns/ab/"

P_DISPLAYNAME = "{%s}displayname" % DAV
P_COMMENT = "{%s}comment" % DAV
P_RESOURCETYPE = "{%s}resourcetype" % DAV
P_GETETAG = "{%s}getetag" % DAV
P_GETCTAG_DAV = "{%s}getctag" % DAV
P_GETCTAG_CS = "{%s}getctag" % CS
P_SYNCTOKEN = "{%s}sync-token" % DAV
P_CTYPE = "{%s}getcontenttype" % DAV
P_CAL_DESC = "{%s}calendar-description" % CAL
P_CAL_COLOR = "{%s}calendar-color" % APPLE
P_CAL_ORDER = "{%s}calendar-order" % APPLE
P_AB_DESC = "{%s}addressbook-description" % CARD
P_AB_COLOR = "{%s}addressbook-color" % INFIT_AB
P_CALDATA = "{%s}calendar-data" % CAL
P_ADDRDATA = "{%s}address-data" % CARD
P_CUP = "{%s}current-user-principal" % DAV
P_PRINCIPAL_URL = "{%s}principal-URL" % DAV
P_CAL_HOME = "{%s}calendar-home-set" % CAL
P_AB_HOME = "{%s}addressbook-home-set" % CARD
P_ADD_MEMBER = "{%s}add-member" % DAV
P_INBOX = "{%s}schedule-inbox-URL" % CAL

RT_COLLECTION = "{%s}collection" % DAV
RT_CALENDAR = "{%s}calendar" % CAL
RT_ADDRESSBOOK = "{%s}addressbook" % CARD
RT_PRINCIPAL = "{%s}principal" % DAV
RT_INBOX = "{%s}schedule-inbox" % CAL
RT_SUBSCRIBED = "{%s}subscribed" % CS

XML_CT = ("Content-Type", "text/xml; charset=utf-8")


def _ser(el):
    return b'<?xml version="1.0" encoding="utf-8"?>' + ET.tostring(el, encoding="utf-8")


def propfind_body(props=None, kind="prop"):
    root = ET.Element("{DAV:}propfind")
    if kind == "allprop":
        ET.SubElement(root, "{DAV:}allprop")
    elif kind == "propname":
        ET.SubElement(root, "{DAV:}propname")
    else:
        p = ET.SubElement(root, "{DAV:}prop")
        for t in props:
            ET.SubElement(p, t)
    return _ser(root)


def proppatch_body(instrs):
    """instrs: list of ("set", tag, text) / ("remove", tag, None)."""
    root = ET.Element("{DAV:}propertyupdate")
    for kind, tag, text in instrs:
        e = ET.SubElement(root, "{DAV:}" + kind)
        p = ET.SubElement(e, "{DAV:}prop")
        v = ET.SubElement(p, tag)
        if kind == "set":
            v.text = text
    return _ser(root)


def mkcol_body(rtypes, props, root_tag="{DAV:}mkcol"):
    root = ET.Element(root_tag)
    s = ET.SubElement(root, "{DAV:}set")
    p = ET.SubElement(s, "{DAV:}prop")
    if rtypes:
        rt = ET.SubElement(p, "{DAV:}resourcetype")
        for t in rtypes:
            ET.SubElement(rt, t)
    for tag, text in props:
        ET.SubElement(p, tag).text = text
    return _ser(root)


def multiget_body(kind, hrefs, props=None):
    ns = CAL if kind == "calendar" else CARD
    root = ET.Element("{%s}%s-multiget" % (ns, kind))
    p = ET.SubElement(root, "{DAV:}prop")
    ET.SubElement(p, P_GETETAG)
    ET.SubElement(p, P_CALDATA if kind == "calendar" else P_ADDRDATA)
    for t in props or ():
        ET.SubElement(p, t)
    for h in hrefs:
        ET.SubElement(root, "{DAV:}href").text = h
    return _ser(root)


def partial_data_body(kind, hrefs, mode):
    """calendar-multiget / calendar-query asking for a *partial* calendar-data
    (RFC 4791 9.6): selected components/properties, or expanded recurrences."""
    root = ET.Element("{%s}calendar-%s" % (CAL, kind))
    p = ET.SubElement(root, "{DAV:}prop")
    ET.SubElement(p, P_GETETAG)
    cd = ET.SubElement(p, P_CALDATA)
    if mode == "expand":
        ET.SubElement(cd, "{%s}expand" % CAL, start="20200101T000000Z", end="20200801T000000Z")
    else:
        vc = ET.SubElement(cd, "{%s}comp" % CAL, name="VCALENDAR")
        ET.SubElement(vc, "{%s}prop" % CAL, name="VERSION")
        ev = ET.SubElement(vc, "{%s}comp" % CAL, name="VEVENT")
        ET.SubElement(ev, "{%s}prop" % CAL, name="SUMMARY")
        ET.SubElement(ev, "{%s}prop" % CAL, name="UID")
    if kind == "multiget":
        for h in hrefs:
            ET.SubElement(root, "{DAV:}href").text = h
    else:
        root.append(cal_filter({"comp": "VEVENT"}))
    return _ser(root)


def sync_body(token, props=(P_GETETAG,), level="1"):
    root = ET.Element("{DAV:}sync-collection")
    ET.SubElement(root, "{DAV:}sync-token").text = token
    ET.SubElement(root, "{DAV:}sync-level").text = level
    p = ET.SubElement(root, "{DAV:}prop")
    for t in props:
        ET.SubElement(p, t)
    return _ser(root)


def calquery_body(filter_el, with_data=False):
    root = ET.Element("{%s}calendar-query" % CAL)
    p = ET.SubElement(root, "{DAV:}prop")
    ET.SubElement(p, P_GETETAG)
    if with_data:
        ET.SubElement(p, P_CALDATA)
    root.append(filter_el)
    return _ser(root)


def cal_filter(spec):
    """Build a CALDAV:filter element from a small JSON-able spec.

    spec: {"comp": "VEVENT", "prop": {"name":..., "test": "present"|"absent"|
           {"text": str, "negate": bool}} | None, "time": [start, end] | None}
    """
    f = ET.Element("{%s}filter" % CAL)
    vc = ET.SubElement(f, "{%s}comp-filter" % CAL, name="VCALENDAR")
    if spec.get("comp") is None:
        return f
    c = ET.SubElement(vc, "{%s}comp-filter" % CAL, name=spec["comp"])
    if spec.get("comp_absent"):
        ET.SubElement(c, "{%s}is-not-defined" % CAL)
        return f
    if spec.get("time"):
        ET.SubElement(c, "{%s}time-range" % CAL, start=spec["time"][0], end=spec["time"][1])
    pr = spec.get("prop")
    if pr:
        pe = ET.SubElement(c, "{%s}prop-filter" % CAL, name=pr["name"])
        t = pr.get("test")
        if t == "absent":
            ET.SubElement(pe, "{%s}is-not-defined" % CAL)
        elif isinstance(t, dict):
            if "text" in t:
                tm = ET.SubElement(pe, "{%s}text-match" % CAL)
                tm.text = t["text"]
                if t.get("negate"):
                    tm.set("negate-condition", "yes")
                if t.get("collation"):
                    tm.set("collation", t["collation"])
            elif "time" in t:
                ET.SubElement(pe, "{%s}time-range" % CAL, start=t["time"][0], end=t["time"][1])
    return f


class MSResponse:
    __slots__ = ("href", "status", "propstats", "el")

    def __init__(self, href, status, propstats, el):
        self.href = href  # raw text of DAV:href
        self.status = status  # int or None
        self.propstats = propstats  # list of (int status, {tag: element})
        self.el = el

    def prop(self, tag, want_status=200):
        for st, props in self.propstats:
            if tag in props and (want_status is None or st == want_status):
                return props[tag]
        return None

    def prop_status(self, tag):
        for st, props in self.propstats:
            if tag in props:
                return st
        return None

    def text(self, tag):
        e = self.prop(tag)
        if e is None:
            return None
        return e.text or ""


def _status_code(text):
    try:
        return int(text.split()[1])
    except Exception:
        return None


def parse_multistatus(body):
    """-> (responses, extra) ; extra = {"sync-token": str|None}.  Raises
    ET.ParseError / ValueError if the body is not a multistatus."""
    root = ET.fromstring(body)
    if root.tag != "{DAV:}multistatus":
        raise ValueError("not a multistatus: %s" % root.tag)
    out = []
    extra = {"sync-token": None}
    for r in root:
        if r.tag == "{DAV:}sync-token":
            extra["sync-token"] = r.text
            continue
        if r.tag != "{DAV:}response":
            continue
        href = None
        status = None
        pss = []
        for c in r:
            if c.tag == "{DAV:}href" and href is None:
                href = c.text or ""
            elif c.tag == "{DAV:}status":
                status = _status_code(c.text or "")
            elif c.tag == "{DAV:}propstat":
                st = None
                props = {}
                for d in c:
                    if d.tag == "{DAV:}status":
                        st = _status_code(d.text or "")
                    elif d.tag == "{DAV:}prop":
                        for e in d:
                            props[e.tag] = e
                pss.append((st, props))
        out.append(MSResponse(href, status, pss, r))
    return out, extra


def href_path(href, base_target="/"):
    """Resolve an href as a client would (against the request URL) and
    return the raw path (still percent-encoded)."""
    u = urllib.parse.urljoin("http://sim" + base_target, href)
    sp = urllib.parse.urlsplit(u)
    return sp.path + (("?" + sp.query) if sp.query else "")


def hrefs_in(el):
    return [h.text or "" for h in el.iter("{DAV:}href")]
