"""Seed derivation: one integer decides everything."""

import hashlib
import random


def H(*parts) -> int:
    h = hashlib.sha256("\x1f".join(str(p) for p in parts).encode("utf-8")).digest()
    return int.from_bytes(h[:8], "big")


def run_seed(verif_seed: int, prop: str, tier: str, index: int) -> int:
    return H("run", verif_seed, prop, tier, index)


class Streams:
    """Independent named PRNG streams derived from one run seed."""

    def __init__(self, seed: int):
        self.seed = seed
        self._s = {}

    def __getitem__(self, name) -> random.Random:
        r = self._s.get(name)
        if r is None:
            r = self._s[name] = random.Random(H("stream", self.seed, name))
        return r

    def sub(self, *name) -> random.Random:
        return random.Random(H("sub", self.seed, *name))
