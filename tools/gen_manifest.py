#!/usr/bin/env python3
"""Regenerate /verif/MANIFEST.json from the table below."""
import json
import os

HERE = os.path.dirname(os.path.dirname(os.path.abspath(__file__)))

HIST_NOTE = ("Trusted base: the simulator (SimFS interposition, virtual-time loop, in-process transport, WSGI gateway stub), "
             "the independent content-line parser and the two dependency adapters in xsim/compat.py. Sampling, not proof.")

CHECKS = {
    "C01": ("E-HIST", "exploration", "4/C01",
            "Seeded request histories (all write/read methods, restarts, store-cache evictions, clock jumps, chunked delivery) through both real front ends over tree-git, bare-git and git-config collections; after every step a client-side audit (PROPFIND Depth 1 + GET of every member, sampled tombstones) is compared with an acknowledgement-following model; a quarter of the runs drive vdir/memory/bare/tree stores at the Store API through several handles; 30 % of the HTTP runs inject ENOSPC/EIO into write requests (and a failed write is retried); one run in 29 is a collection of a thousand-odd members with I/O errors inside the index write. Exploration is the honest level: histories are sampled, each one is checked completely.",
            "deterministic simulation: seeded histories + follow-the-ack model + full audit per step"),
    "C02": ("E-HIST", "exploration", "4/C02",
            "Same histories with a view-heavy mix; at every audit the etag of each member is compared across PUT response, GET, HEAD, PROPFIND Depth 0/1, multiget, calendar-query and sync-collection, and a per-path bijection etag <-> served bytes is maintained over the whole history. One third of the runs (E-CONC) overlap a read with a write on the aiohttp front end (await points, parked worker threads over the whole length of a git commit) and require equivalence with one of the two sequential executions.",
            "deterministic simulation: cross-view and cross-time etag/body bijection oracle"),
    "C03": ("E-HIST", "exploration", "4/C03",
            "Conditional PUT/DELETE/GET/HEAD with validators drawn from the etag history (current, stale, foreign, lists, *, empty, unquoted, garbage) on present and absent resources through both front ends; the precondition is evaluated by the model exactly as the statement words it; refused requests must leave the audited state unchanged. One third of the runs overlap two conditional writes (E-CONC).",
            "deterministic simulation: model-evaluated preconditions over etag histories"),
    "C06": ("E-HIST", "exploration", "4/C06",
            "Histories over few UIDs and many names (UID moves, deletes, restarts, cache evictions); UIDs are extracted from served bytes by an independent parser; real conflicts must be refused without effect, non-conflicts must never be refused as no-uid-conflict. POSTs carry media-type parameters and members created by POST count as calendar objects under whatever name the server chose; half of the runs use the Store API with 2-3 handles, UID hand-over patterns and one failing read inside a write.",
            "deterministic simulation: UID holder model from served bytes"),
    "C07": ("E-HIST", "exploration", "4/C07",
            "Every audited state issues a token; sync-collection is run with arbitrary earlier tokens, the empty token and never-issued tokens (random, malformed, blob/commit ids, other collections' tokens); the multistatus must equal the exact diff of the two observed snapshots and return the current token. Twins of one content under adjacent names; 30 % of the runs sweep a read error over every file-system event of a sync report (the report may fail, a 207 must still be the exact diff); one third of the runs overlap the report with a write (E-CONC).",
            "deterministic simulation: snapshot-diff oracle over all (token i, report j) pairs"),
    "C08": ("E-HIST", "exploration", "4/C08",
            "ctag (both namespaces), sync-token and collection getetag observed at every audit; tag -> member state must be a function, reads/refused/failed/foreign writes must not move the tag, and (members, .xandikos bytes) -> tag must be a function for git collections. The read-only audit is bracketed by two sync-token-only PROPFINDs so that a read which writes cannot hide inside it.",
            "deterministic simulation: tag/state functional-dependency oracle over all pairs of points"),
    "C09": ("E-HIST", "exploration", "4/C09",
            "Independent git observer (dulwich walker after every step, real `git fsck --strict` and `git status --porcelain` every 5th step and at the end) checks append-only first-parent history, exactly one commit per content change, none for no-ops, no empty commits, head tree == served bytes, clean work tree; clock jumps are injected.",
            "deterministic simulation: independent git observer on the arena"),
    "C14": ("E-HIST", "exploration", "4/C14",
            "Bodies of the invalid classes must be refused without effect; every stored calendar/vCard member must parse with the independent parser at every audit; re-upload of served bytes must be a no-op (same ETag, same tags, same commit count). Invalid bodies also go to plain WebDAV collections (the media type decides).",
            "deterministic simulation: refusal + fixed-point oracle on state"),
    "C15": ("E-HIST", "exploration", "4/C15",
            "PROPPATCH / extended MKCOL / MKCALENDAR set and remove over all settable properties with values from a grammar of configuration-file metacharacters, interleaved with restarts and cache evictions, on file-based and git-config metadata; every acknowledged value is pinned and must read back at every later audit; other collections and members must not change. 30 % of the runs inject ENOSPC/EIO into single-instruction PROPPATCH and other writes: a failed request must leave every pinned value readable.",
            "deterministic simulation: pinned-value read-back across restarts"),
    "C16": ("E-HIST", "exploration", "4/C16",
            "Member and collection names over URL-significant and non-ASCII characters, three route prefixes, both front ends; Depth 0/1 response sets are compared with the model and every href of every listing, Location header, PROPPATCH response and href-valued property is dereferenced exactly as sent. 30 % of the runs inject read errors into PROPFIND/GET/REPORT: the request may fail, a 207 may not lose a member.",
            "deterministic simulation: href-following client node"),
    "C17": ("E-HIST", "exploration", "4/C17",
            "multiget with mixed href lists (live, deleted, never-existing, duplicated, differently encoded, absolute, other collection, wrong kind, outside prefix, prefix look-alike, malformed) at arbitrary points of write histories; per-href oracle against GET plus metamorphic single-href re-query.",
            "deterministic simulation: per-href oracle + metamorphic independence"),
}

NOT_APPLICABLE = [
    {"property_id": "C11", "reason": "pure function of (filter XML, object bytes, timezone): no schedule, clock, fault, crash point or history can change the answer; deciding it is input enumeration against the RFC 4791 tables, not deterministic simulation (DESIGN.md section 5)"},
    {"property_id": "C12", "reason": "pure function of (filter XML, vCard bytes): same reasoning as C11 for RFC 6352 filters, collations and nresults (DESIGN.md section 5)"},
]


def main():
    extra_path = os.path.join(HERE, "tools", "manifest_extra.json")
    checks = []
    na = list(NOT_APPLICABLE)
    table = dict(CHECKS)
    if os.path.exists(extra_path):
        with open(extra_path) as f:
            ex = json.load(f)
        table.update({k: tuple(v) for k, v in ex.get("checks", {}).items()})
    claimed = set(table)
    for pid in ["C%02d" % i for i in range(1, 19)]:
        if pid in claimed:
            eng, level, ref, text, tech = table[pid][:5]
            note = table[pid][5] if len(table[pid]) > 5 else HIST_NOTE
            checks.append({
                "property_id": pid,
                "quick_cmd": "/venv/bin/python -m xsim check %s --tier quick" % pid,
                "thorough_cmd": "/venv/bin/python -m xsim check %s --tier thorough" % pid,
                "evidence_file": "/verif/evidence/%s.json" % pid,
                "replay_cmd_template": "/venv/bin/python -m xsim replay {path}",
                "engine": eng,
                "level_claimed": {"category": level, "text": text, "design_ref": "DESIGN.md " + ref},
                "level_note": note,
                "technique": tech,
            })
        elif not any(n["property_id"] == pid for n in na):
            na.append({"property_id": pid, "reason": "check under construction in this revision (engine not yet committed); see DESIGN.md section 4"})
    engines = [
        {"name": "E-HIST", "path": "xsim/engines/hist.py", "serves_properties": sorted(p for p in claimed if table[p][0] == "E-HIST"),
         "kind_free_text": "deterministic simulation of sequential request histories with restarts, cache evictions, clock jumps and delivery faults; model + audit after every step"},
    ]
    for name, path, text in (("E-STORE", "xsim/engines/store.py", "Store-API histories on vdir / memory / bare / tree stores"),
                             ("E-CRASH", "xsim/engines/crash.py", "process death at every intercepted fs mutation incl. torn writes, restart, read-back oracle"),
                             ("E-SCHED", "xsim/engines/sched.py", "seeded interleavings of concurrent store operations (baton-passing threads, PCT + random walk) against sequential executions of the same code"),
                             ("E-INDEX", "xsim/engines/index.py", "query/write interleavings with the index-threshold knob against a cold twin that can never index"),
                             ("E-PATH", "xsim/engines/path.py", "adversarial request targets with every fs event of the server observed"),
                             ("E-DISCO", "xsim/engines/disco.py", "start-up configurations x restarts with a client that follows only returned hrefs")):
        served = sorted(p for p in claimed if table[p][0] == name or (len(table[p]) > 6 and name in table[p][6]))
        if served:
            engines.append({"name": name, "path": path, "serves_properties": served, "kind_free_text": text})
    doc = {
        "version": 1,
        "setup_cmd": "/venv/bin/python -m xsim selftest smoke",
        "hooks": {
            "guard": "XANDIKOS_VERIF",
            "enable": "no hooks in /repo: every seam is installed by the harness process (module-attribute patches of os/io/time/uuid/tempfile, constructor knobs index_threshold/paranoid, a custom asyncio event loop); XSIM_REPO selects the tree under test (default /repo)",
            "baseline_off_cmd": "cd /repo && /venv/bin/python -m pytest -q -p no:cacheprovider --timeout=900 --continue-on-collection-errors",
            "source_commits": [],
            "add_only": True,
        },
        "engines": engines,
        "checks": checks,
        "notes": "All checks: /venv/bin/python -m xsim check <id> --tier quick|thorough (VERIF_SEED, VERIF_BUDGET_S honoured). Exit 0 held, 1 VIOLATION line + replay file under /verif/replays, 2 harness error. Known findings: /verif/known_findings.json. See DESIGN.md.",
        "not_applicable": na,
    }
    with open(os.path.join(HERE, "MANIFEST.json"), "w") as f:
        json.dump(doc, f, indent=1)
    print("claimed", len(checks), "not_applicable", len(na))


if __name__ == "__main__":
    main()
