"""Oracles evaluated after every step of an E-HIST run (DESIGN.md 4)."""

import hashlib
import os
import subprocess
import urllib.parse
from xml.etree import ElementTree as ET

from .. import dav, icalparse
from ..observe import rel_of, sha
from ..simfs import FS

OK_STATUS = (200, 201, 204, 207)
GIT_ENV = None


def git_blob_id(data):
    return hashlib.sha1(b"blob %d\0" % len(data) + data).hexdigest()


def is_bare_412(r):
    return r is not None and r.status == 412 and b"error" not in (r.body or b"")


def nl(b):
    return b.replace(b"\r\n", b"\n").replace(b"\r", b"\n")


# --------------------------------------------------------------------------
def post_step(run, op, ctx, before, before_fp, after):
    p = run.prop
    st = ctx.get("status")
    success = st in OK_STATUS
    after_fp = {k: o.fingerprint() for k, o in after.items()}
    changed = sorted(k for k in after_fp if k in before_fp and after_fp[k] != before_fp[k])
    ctx["changed_colls"] = changed
    ctx["success"] = success
    generic_state_rules(run, op, ctx, before, after, changed, success)
    record_tokens_and_tags(run, after)
    if p == "C02":
        c02(run, op, ctx, after)
    elif p == "C03":
        c03(run, op, ctx, changed)
    elif p == "C06":
        c06(run, op, ctx, before, after, changed)
    elif p == "C07":
        c07(run, op, ctx, after)
    elif p == "C08":
        c08(run, op, ctx, before, after, changed)
    elif p == "C09":
        c09(run, op, ctx, before, after)
    elif p == "C14":
        c14(run, op, ctx, before, after, changed)
    elif p == "C15":
        c15(run, op, ctx, before, after, changed)
    elif p == "C16":
        c16(run, op, ctx, after)
    elif p == "C17":
        c17(run, op, ctx, after)
    if p == "C01":
        c01_nontrivial(run, op, ctx)


def final_checks(run):
    if run.prop == "C09":
        for path, c in sorted(run.model.colls.items()):
            if c.backend in ("tree", "gitcfg", "bare"):
                real_git_checks(run, path, c)


# ------------------------------------------------------------------ generic
def allowed_to_change(run, op, ctx):
    out = set()
    for k in ("coll", "created", "deleted_coll"):
        if ctx.get(k):
            out.add(ctx[k])
    if ctx.get("created") or ctx.get("deleted_coll"):
        pth = ctx.get("created") or ctx.get("deleted_coll")
        out.add(run.model.parent_of(pth))
    return out


def generic_state_rules(run, op, ctx, before, after, changed, success):
    """C01: a request that is not answered with success changes nothing; a
    successful write changes only its target; restarts/evictions/clock jumps
    and reads change nothing."""
    kind = op["op"]
    if ctx.get("nochange"):
        if ctx.get("recreated_defaults"):
            # parents of re-created default collections list them again
            changed = [c for c in changed if c not in ("/user/calendars/", "/user/contacts/")]
        if changed:
            d = describe_change(before, after, changed[0])
            run.v("C01", "C01.state-changed-by-" + kind, "%s changed %s: %s" % (kind, changed, d), fault=kind)
        return
    if ctx.get("read"):
        if changed:
            run.v("C01", "C01.read-changed-state", "%s %s changed %s: %s" % (kind, ctx.get("rel"), changed, describe_change(before, after, changed[0])), op=kind)
        return
    if not ctx.get("write"):
        return
    if not success:
        if changed:
            run.v("C01", "C01.nonsuccess-changed-state", "%s -> %s but %s changed: %s" % (kind, ctx.get("status"), changed, describe_change(before, after, changed[0])),
                  op=kind, status=ctx.get("status"), io_fault=bool(ctx.get("io_fault")), multi_instruction=bool(kind == "proppatch" and len(op.get("instrs", [])) > 1))
        return
    ok = allowed_to_change(run, op, ctx)
    bad = [c for c in changed if c not in ok]
    if bad:
        run.v("C01", "C01.other-collection-altered", "%s on %s also changed %s: %s" % (kind, ctx.get("rel"), bad, describe_change(before, after, bad[0])), op=kind)
    if ctx.get("unexpected_success"):
        run.v("C01", "C01.success-on-unknown-target", "%s %s -> %s but no such collection/member is known" % (kind, ctx.get("rel"), ctx.get("status")), op=kind)
    if kind in ("put", "reupload") and ctx.get("coll") in after and ctx.get("rel"):
        name = ctx["rel"][len(ctx["coll"]):]
        o = after[ctx["coll"]]
        if o.exists and name not in o.members:
            run.v("C01", "C01.acknowledged-write-missing", "PUT %s -> %s but it is not listed" % (ctx["rel"], ctx["status"]))


def describe_change(before, after, path):
    b, a = before.get(path), after.get(path)
    if b is None or a is None:
        return "appeared/disappeared"
    out = []
    if b.exists != a.exists:
        out.append("exists %s->%s" % (b.exists, a.exists))
    bn, an = set(b.members), set(a.members)
    if bn != an:
        out.append("members +%s -%s" % (sorted(an - bn), sorted(bn - an)))
    for n in sorted(bn & an):
        if b.members[n].get("sha") != a.members[n].get("sha") or b.members[n].get("etag") != a.members[n].get("etag"):
            out.append("member %s content/etag changed" % n)
    if sorted(b.subs) != sorted(a.subs):
        out.append("subs %s->%s" % (sorted(b.subs), sorted(a.subs)))
    if b.tags != a.tags:
        out.append("tags %s->%s" % (b.tags.get("sync"), a.tags.get("sync")))
    if b.props != a.props:
        ch = [t for t in a.props if a.props.get(t) != b.props.get(t)]
        out.append("props %s" % [(t, b.props.get(t), a.props.get(t)) for t in ch[:2]])
    return "; ".join(out)[:400]


def c01_nontrivial(run, op, ctx):
    nt = run.nontrivial
    if ctx.get("write") and ctx.get("success") and ctx.get("rel"):
        nt.setdefault("written", set()).add(ctx["rel"])
        nt["succ"] = nt.get("succ", 0) + 1
    if ctx.get("write") and not ctx.get("success"):
        nt["fail"] = nt.get("fail", 0) + 1


def record_tokens_and_tags(run, after):
    for path, o in after.items():
        if not o.exists or not o.tags.get("sync"):
            continue
        toks = run.tokens.setdefault(path, [])
        snap = {n: m.get("etag") for n, m in o.members.items()}
        if not toks or toks[-1]["token"] != o.tags["sync"] or toks[-1]["snap"] != snap:
            toks.append({"step": run.step_no, "token": o.tags["sync"], "snap": snap})


# ---------------------------------------------------------------------- C02
def c02(run, op, ctx, after):
    if op["op"] in ("put", "reupload") and ctx.get("success") and ctx.get("put_etag") is not None:
        o = after.get(ctx.get("coll"))
        name = ctx["rel"][len(ctx["coll"]):] if ctx.get("coll") else None
        if o is not None and name in o.members:
            if o.members[name].get("etag") != ctx["put_etag"]:
                run.v("C02", "C02.put-etag-differs", "PUT %s returned ETag %s, PROPFIND shows %s" % (ctx["rel"], ctx["put_etag"], o.members[name].get("etag")), view="put")
    for path, o in sorted(after.items()):
        c = run.model.colls.get(path)
        if c is None or c.kind == "principal" or not o.exists:
            continue
        names = sorted(o.members)
        for n in names:
            m = o.members[n]
            if m.get("status") != 200:
                continue
            rel = path + n
            e = m.get("etag")
            if m.get("get_etag") != e:
                run.v("C02", "C02.views-disagree", "%s: PROPFIND %s vs GET %s" % (rel, e, m.get("get_etag")), view="get")
            eb = run.etag_bodies.setdefault(rel, {})
            se = run.sha_etags.setdefault(rel, {})
            s = m.get("sha")
            if e in eb and eb[e] != s:
                run.v("C02", "C02.same-etag-different-bytes", "%s: etag %s served two different bodies" % (rel, e), backend=c.backend)
            if s in se and se[s] != e:
                run.v("C02", "C02.same-bytes-different-etag", "%s: identical bytes carried etags %s and %s" % (rel, se[s], e), backend=c.backend)
            eb[e] = s
            se[s] = e
            if len(eb) >= 3:
                run.nontrivial.setdefault("paths3", set()).add(rel)
        if not names:
            continue
        base = run.world.target(path)
        if c.kind in ("calendar", "addressbook"):
            which = c.kind
            want_ext = ".ics" if which == "calendar" else ".vcf"
            r = run.world.req("REPORT", path, [dav.XML_CT, ("Depth", "1")], dav.multiget_body(which, [run.world.target(path + n) for n in names]))
            compare_view(run, "multiget", path, o, r, base, data_tag=dav.P_CALDATA if which == "calendar" else dav.P_ADDRDATA, only_ext=want_ext)
        if c.kind == "calendar":
            # the same query at every audit (so that it is answered from the index sooner or later),
            # with the data: etag and bytes of every answer are those of GET
            flt = {"comp": "VEVENT"} if run.cfg.get("seed", 0) % 2 else {"comp": None}
            r = run.world.req("REPORT", path, [dav.XML_CT, ("Depth", "1")], dav.calquery_body(dav.cal_filter(flt), with_data=True))
            compare_view(run, "calendar-query", path, o, r, base, data_tag=dav.P_CALDATA, partial=True)
        r = run.world.req("REPORT", path, [dav.XML_CT], dav.sync_body(""))
        compare_view(run, "sync-collection", path, o, r, base)
        # HEAD + PROPFIND Depth 0 of one member
        n = names[run.step_no % len(names)]
        m = o.members[n]
        h = run.world.req("HEAD", path + n)
        if h is not None and h.status == 200 and h.header("ETag") != m.get("etag"):
            run.v("C02", "C02.views-disagree", "%s: HEAD %s vs PROPFIND %s" % (path + n, h.header("ETag"), m.get("etag")), view="head")
        r0 = run.world.req("PROPFIND", path + n, [("Depth", "0"), dav.XML_CT], dav.propfind_body([dav.P_GETETAG]))
        if r0 is not None and r0.status == 207:
            try:
                rs, _ = dav.parse_multistatus(r0.body)
                if rs and rs[0].text(dav.P_GETETAG) != m.get("etag"):
                    run.v("C02", "C02.views-disagree", "%s: PROPFIND Depth0 %s vs Depth1 %s" % (path + n, rs[0].text(dav.P_GETETAG), m.get("etag")), view="propfind0")
            except (ET.ParseError, ValueError):
                pass


def compare_view(run, view, path, o, r, base, data_tag=None, only_ext=None, partial=False):
    if r is None or r.status != 207:
        if r is not None and r.status >= 500:
            run.count("view_5xx." + view)
        return
    try:
        rs, _ = dav.parse_multistatus(r.body)
    except (ET.ParseError, ValueError):
        return
    run.count("views." + view)
    for ms in rs:
        rel = rel_of(run.world, dav.href_path(ms.href or "", base))
        if rel is None or not rel.startswith(path):
            continue
        n = rel[len(path):]
        if n not in o.members:
            continue
        e = ms.text(dav.P_GETETAG)
        if e is not None and e != o.members[n].get("etag"):
            run.v("C02", "C02.views-disagree", "%s: %s getetag %s vs PROPFIND %s" % (rel, view, e, o.members[n].get("etag")), view=view)
        if data_tag is not None:
            d = ms.prop(data_tag)
            if d is not None and d.text is not None and o.members[n].get("body") is not None:
                if nl(d.text.encode("utf-8")) != nl(o.members[n]["body"]):
                    run.v("C02", "C02.report-data-differs-from-get", "%s: %s data differs from GET" % (rel, view), view=view)


# ---------------------------------------------------------------------- C03
def c03(run, op, ctx, changed):
    kind = op["op"]
    r = ctx.get("resp")
    if kind in ("put", "delete") and op.get("cond"):
        fe = run.cfg.get("frontend")
        hdrs = sorted((op.get("cond") or {}).keys())
        if ctx.get("must_fail"):
            run.nontrivial.setdefault("refused", set()).add(ctx.get("rel"))
            if ctx.get("status") != 412:
                run.v("C03", "C03.false-precondition-executed", "%s %s with %s (current etag %s, exists=%s) -> %s, expected 412" % (
                    kind.upper(), ctx.get("rel"), ctx.get("cond"), run_cur(run, ctx), ctx.get("existed"), ctx.get("status")),
                    method=kind, headers=",".join(hdrs))
            elif changed:
                run.v("C03", "C03.refused-request-changed-state", "%s %s -> 412 but %s changed" % (kind.upper(), ctx.get("rel"), changed), method=kind)
        else:
            run.nontrivial.setdefault("executed", set()).add(ctx.get("rel"))
            if is_bare_412(r):
                run.v("C03", "C03.true-precondition-refused", "%s %s with %s (exists=%s) -> 412" % (kind.upper(), ctx.get("rel"), ctx.get("cond"), ctx.get("existed")),
                      method=kind, headers=",".join(hdrs))
    if kind in ("get", "head") and "inm_hit" in ctx:
        if ctx["inm_hit"]:
            if ctx.get("status") != 304:
                run.v("C03", "C03.get-not-304", "%s %s with %s -> %s, expected 304" % (kind.upper(), ctx.get("rel"), ctx.get("cond"), ctx.get("status")), method=kind)
            elif r is not None and r.body:
                run.v("C03", "C03.304-with-body", "%s %s -> 304 with %d body bytes" % (kind.upper(), ctx.get("rel"), len(r.body)), method=kind)
            run.nontrivial.setdefault("refused", set()).add(ctx.get("rel"))
        elif ctx.get("status") == 304:
            run.v("C03", "C03.304-without-match", "%s %s with %s -> 304" % (kind.upper(), ctx.get("rel"), ctx.get("cond")), method=kind)


def run_cur(run, ctx):
    return ctx.get("old_etag") or run.current_etag(ctx.get("rel") or "")


# ---------------------------------------------------------------------- C06
def c06(run, op, ctx, before, after, changed):
    # invariant: UIDs pairwise distinct within a calendar
    for path, o in sorted(after.items()):
        c = run.model.colls.get(path)
        if c is None or c.kind != "calendar" or not o.exists:
            continue
        seen = {}
        for n, m in sorted(o.members.items()):
            if not (n.endswith(".ics") or path + n in run.post_cal) or m.get("body") is None:
                continue
            u = icalparse.first_uid(m["body"])
            if u is None:
                continue
            if u in seen:
                run.v("C06", "C06.duplicate-uid", "%s: %s and %s both carry UID %r" % (path, seen[u], n, u), backend=c.backend)
            seen[u] = n
    if op["op"] not in ("put", "post") or "body" not in ctx:
        return
    coll = ctx.get("coll")
    c = run.model.colls.get(coll)
    if c is None or c.kind != "calendar":
        return
    name = op.get("name")
    if op["op"] == "put" and not (name or "").endswith(".ics"):
        return
    if op["op"] == "post" and (op.get("ctype") or "").split(";")[0].strip() != "text/calendar":
        return
    uid = icalparse.first_uid(ctx["body"])
    if uid is None:
        return
    ob = before.get(coll)
    if ob is None or not ob.exists:
        return
    holders = []
    for n, m in ob.members.items():
        if n == name or not (n.endswith(".ics") or coll + n in run.post_cal) or m.get("body") is None:
            continue
        if icalparse.first_uid(m["body"]) == uid:
            holders.append(n)
    r = ctx.get("resp")
    refused_uid = r is not None and r.status == 412 and b"no-uid-conflict" in (r.body or b"")
    if holders:
        run.nontrivial["conflicts"] = run.nontrivial.get("conflicts", 0) + 1
        if ctx.get("success"):
            run.v("C06", "C06.conflicting-write-accepted", "%s %s%s with UID %r accepted although %s holds it" % (op["op"].upper(), coll, name or "", uid, holders), backend=c.backend)
        elif changed:
            run.v("C06", "C06.refused-write-changed-state", "refused UID conflict changed %s" % changed, backend=c.backend)
    else:
        # was this UID ever held by something else before?  (reuse)
        if uid in run.nontrivial.setdefault("uids_seen", {}).get(coll, set()):
            run.nontrivial["reuse"] = run.nontrivial.get("reuse", 0) + 1
        if refused_uid:
            run.v("C06", "C06.false-uid-conflict", "%s %s%s with UID %r refused as conflict, but no other member of %s holds it (members: %s)" % (
                op["op"].upper(), coll, name or "", uid, coll, sorted(ob.members)), backend=c.backend)
    if ctx.get("success"):
        run.nontrivial.setdefault("uids_seen", {}).setdefault(coll, set()).add(uid)


# ---------------------------------------------------------------------- C07
def c07(run, op, ctx, after):
    if op["op"] != "report" or ctx.get("report") != "sync" or ctx.get("tokinfo") is None:
        return
    ti = ctx["tokinfo"]
    r = ctx.get("resp")
    coll = ctx["rel"]
    o = after.get(coll)
    if o is None or not o.reliable or r is None:
        return
    if ti.get("never"):
        run.nontrivial["foreign"] = run.nontrivial.get("foreign", 0) + 1
        if r.status in OK_STATUS:
            run.v("C07", "C07.unissued-token-accepted", "sync-collection on %s with never-issued token %r (%s) -> %s" % (coll, ctx.get("token_text"), ti.get("class"), r.status), token_class=ti.get("class", "literal"))
        return
    if r.status != 207:
        if ctx.get("read_fault"):
            # an injected read error may fail the report (5xx, or 412 "token not valid", which sends
            # the client into a full resynchronisation); it may not make a 207 lie
            run.nontrivial["sync_failed_under_read_fault"] = run.nontrivial.get("sync_failed_under_read_fault", 0) + 1
            return
        if r.status >= 500 or r.status in (412, 403, 400):
            run.v("C07", "C07.issued-token-refused", "sync-collection on %s with issued token %r -> %s" % (coll, ctx.get("token_text"), r.status), status=r.status)
        return
    try:
        rs, extra = dav.parse_multistatus(r.body)
    except (ET.ParseError, ValueError) as e:
        run.v("C07", "C07.unparseable", "sync-collection body: %s" % e)
        return
    now = {n: m.get("etag") for n, m in o.members.items()}
    old = {} if ti.get("empty") else ti["snap"]
    want_changed = {n: e for n, e in now.items() if old.get(n) != e}
    want_removed = {n for n in old if n not in now}
    got_changed, got_removed = {}, set()
    base = run.world.target(coll)
    problems = []
    for ms in rs:
        rel = rel_of(run.world, dav.href_path(ms.href or "", base))
        if rel is None or not rel.startswith(coll) or "/" in rel[len(coll):]:
            problems.append("foreign href %r" % ms.href)
            continue
        n = rel[len(coll):]
        if n in got_changed or n in got_removed:
            problems.append("%s reported twice" % n)
        if ms.status == 404:
            got_removed.add(n)
        else:
            got_changed[n] = ms.text(dav.P_GETETAG)
    if set(got_changed) != set(want_changed):
        problems.append("changed set: got %s want %s" % (sorted(got_changed), sorted(want_changed)))
    else:
        for n, e in got_changed.items():
            if e != want_changed[n]:
                problems.append("etag of %s: got %s want %s" % (n, e, want_changed[n]))
    if got_removed != want_removed:
        problems.append("removed set: got %s want %s" % (sorted(got_removed), sorted(want_removed)))
    if extra.get("sync-token") != o.tags.get("sync"):
        problems.append("returned token %r is not the current token %r" % (extra.get("sync-token"), o.tags.get("sync")))
    if problems:
        run.v("C07", "C07.wrong-change-list", "sync on %s from token of step %s: %s" % (coll, ti.get("step", "-"), "; ".join(problems)[:400]),
              backend=run.model.colls[coll].backend if coll in run.model.colls else None, empty_token=bool(ti.get("empty")),
              # the answer describes the collection as having no members at all (token of the empty tree)
              reports_empty_collection=bool(extra.get("sync-token") == "4b825dc642cb6eb9a060e54bf8d69288fbee4904" and o.tags.get("sync") != extra.get("sync-token")), read_fault=bool(ctx.get("read_fault")))
    if want_changed and want_removed:
        run.nontrivial.setdefault("pairs", set()).add((coll, ti.get("step"), run.step_no))
    run.nontrivial["reports"] = run.nontrivial.get("reports", 0) + 1


# ---------------------------------------------------------------------- C08
def meta_bytes(run, coll, c):
    """Bytes of the hidden .xandikos file in the head tree (git observer)."""
    if c.backend == "gitcfg":
        return b""
    from dulwich.repo import Repo

    a = FS.active
    FS.active = False
    try:
        try:
            rp = Repo(os.path.join(run.arena.root, coll.strip("/")))
        except Exception:
            return None
        try:
            try:
                head = rp[rp.head()]
            except KeyError:
                return b"absent"
            tree = rp[head.tree]
            try:
                return b"present:" + rp[tree[b".xandikos"][1]].data
            except KeyError:
                # no .xandikos file at all is another tree than an empty one
                return b"absent"
        finally:
            rp.close()
    finally:
        FS.active = a


def c08(run, op, ctx, before, after, changed):
    for path, o in sorted(after.items()):
        c = run.model.colls.get(path)
        if c is None or c.kind == "principal" or not o.reliable:
            continue
        t = o.tags
        vals = {"ctag_dav": t.get("ctag_dav"), "ctag_cs": t.get("ctag_cs"), "sync": t.get("sync"), "getetag": (t.get("getetag") or "").strip('"') or None}
        if len(set(vals.values())) != 1:
            run.v("C08", "C08.tags-disagree", "%s: %s" % (path, vals), backend=c.backend)
            continue
        tag = vals["sync"]
        if tag is None:
            continue
        ms = o.member_state()
        ts = run.tag_states.setdefault(path, {})
        if tag in ts and ts[tag] != ms:
            run.v("C08", "C08.same-tag-different-contents", "%s: tag %s seen with two different member states" % (path, tag), backend=c.backend)
        ts[tag] = ms
        ob = before.get(path)
        if ob is None or not ob.exists:
            continue
        old_tag = ob.tags.get("sync")
        touched = path in ((ctx.get("coll"), ctx.get("created"), ctx.get("deleted_coll")))
        is_write_here = ctx.get("write") and ctx.get("success") and (touched or ctx.get("rel") == path)
        if old_tag != tag and not is_write_here:
            why = "read" if ctx.get("read") else ("no-op fault %s" % op["op"] if ctx.get("nochange") else ("failed request (%s)" % ctx.get("status") if not ctx.get("success") else "write to another collection"))
            run.v("C08", "C08.tag-changed-without-change", "%s: tag %s -> %s after %s %s" % (path, old_tag, tag, op["op"], why), backend=c.backend, cause=why.split(" ")[0],
                  op=op["op"], io_fault=bool(ctx.get("io_fault")), multi_instruction=bool(op["op"] == "proppatch" and len(op.get("instrs", [])) > 1))
        if ob.member_state() != ms and old_tag == tag:
            run.v("C08", "C08.contents-changed-tag-did-not", "%s: members changed but tag stayed %s" % (path, tag), backend=c.backend)
        # equal contents => equal tag (git): key = (member state, metadata bytes)
        mb = meta_bytes(run, path, c)
        if mb is not None:
            key = (ms, hashlib.sha1(mb).hexdigest())
            st = run.tag_states.setdefault(path + "#bystate", {})
            last = run.tag_states.setdefault("#last", {})
            if key in st and last.get(path) is not None and last[path] != key:
                run.nontrivial.setdefault("returns", set()).add((path, key))
            last[path] = key
            if key in st:
                if st[key] != tag:
                    run.v("C08", "C08.same-contents-different-tag", "%s: same members and metadata, tags %s and %s" % (path, st[key], tag), backend=c.backend)
            st[key] = tag


# ---------------------------------------------------------------------- C09
def read_history(run, coll):
    from dulwich.repo import Repo

    a = FS.active
    FS.active = False
    try:
        try:
            rp = Repo(os.path.join(run.arena.root, coll.strip("/")))
        except Exception:
            return None
        try:
            out = []
            try:
                cid = rp.head()
            except KeyError:
                return {"commits": [], "tree": {}}
            first = rp[cid]
            while True:
                cm = rp[cid]
                out.append((cid.decode(), cm.tree.decode(), [p.decode() for p in cm.parents]))
                if not cm.parents:
                    break
                cid = cm.parents[0]
            tree = {}
            for e in rp[first.tree].items():
                tree[e.path.decode("utf-8", "replace")] = e.sha.decode()
            return {"commits": out, "tree": tree}
        finally:
            rp.close()
    finally:
        FS.active = a


def c09(run, op, ctx, before, after):
    if ctx.get("deleted_coll"):
        for k in [k for k in run.git_heads if k.startswith(ctx["deleted_coll"])]:
            del run.git_heads[k]
    for path, c in sorted(run.model.colls.items()):
        if c.backend not in ("tree", "bare", "gitcfg"):
            continue
        o = after.get(path)
        if o is None or not o.exists:
            continue
        h = read_history(run, path)
        if h is None:
            run.v("C09", "C09.repository-unreadable", "%s cannot be opened as a git repository" % path, backend=c.backend)
            continue
        prev = run.git_heads.get(path)
        run.git_heads[path] = h
        commits = h["commits"]
        # head tree == live members with served bytes (+ .xandikos)
        want = {n: git_blob_id(m["body"]) for n, m in o.members.items() if m.get("body") is not None}
        got = {n: s for n, s in h["tree"].items() if n != ".xandikos"}
        if want != got and len(want) == len(o.members):
            run.v("C09", "C09.head-tree-differs-from-served", "%s: tree %s vs served %s" % (path, sorted(set(got.items()) - set(want.items()))[:3], sorted(set(want.items()) - set(got.items()))[:3]), backend=c.backend)
        if prev is None or ctx.get("created") == path:
            continue
        pc = prev["commits"]
        if pc and (len(commits) < len(pc) or [x[0] for x in commits[len(commits) - len(pc):]] != [x[0] for x in pc]):
            run.v("C09", "C09.history-rewritten", "%s: previous head %s is no longer on the first-parent chain" % (path, pc[0][0] if pc else None), backend=c.backend)
            continue
        new = commits[: len(commits) - len(pc)]
        for cid, tree, parents in new:
            if len(parents) > 1:
                run.v("C09", "C09.merge-commit", "%s: commit %s has %d parents" % (path, cid, len(parents)), backend=c.backend)
        chain = commits
        for i, (cid, tree, parents) in enumerate(new):
            ptree = chain[i + 1][1] if i + 1 < len(chain) else None
            if ptree is not None and ptree == tree:
                run.v("C09", "C09.empty-commit", "%s: commit %s has the same tree as its parent (after %s)" % (path, cid, op["op"]), backend=c.backend, op=op["op"])
        ob = before.get(path)
        members_changed = ob is not None and ob.member_state() != o.member_state()
        n_new = len(new)
        target_here = ctx.get("coll") == path or ctx.get("rel") == path
        kind = op["op"]
        if kind in ("put", "post", "delete", "reupload") and ctx.get("success") and target_here:
            if members_changed and n_new != 1:
                run.v("C09", "C09.commit-count", "%s: %s changed the members but added %d commits" % (path, kind, n_new), backend=c.backend, op=kind, n=n_new)
            if not members_changed and n_new == 0 and kind == "put" and ctx.get("body") is not None and ctx.get("old_served") is not None:
                up, old = ctx["body"], ctx["old_served"]
                if up != old and not icalparse.semantically_equal(up, old):
                    run.v("C09", "C09.change-without-commit", "%s: PUT %s acknowledged (%s) with new content but no commit was added and the old bytes are still served" % (path, ctx.get("rel"), ctx.get("status")), backend=c.backend)
            if not members_changed and n_new != 0:
                run.v("C09", "C09.commit-for-noop", "%s: %s changed nothing but added %d commits" % (path, kind, n_new), backend=c.backend, op=kind)
            if not members_changed:
                run.nontrivial["noop"] = run.nontrivial.get("noop", 0) + 1
        elif kind == "proppatch" and target_here and ctx.get("status") == 207:
            lim = len(op["instrs"]) if c.backend != "gitcfg" else 0
            if n_new > lim:
                run.v("C09", "C09.commit-count", "%s: PROPPATCH with %d instructions added %d commits" % (path, len(op["instrs"]), n_new), backend=c.backend, op=kind)
            run.nontrivial["propchange"] = run.nontrivial.get("propchange", 0) + 1
        elif n_new != 0:
            run.v("C09", "C09.commit-without-change", "%s: %s (%s) on %s added %d commits here" % (path, kind, ctx.get("status"), ctx.get("rel"), n_new), backend=c.backend, op=kind)
        if run.step_no % 5 == 4:
            real_git_checks(run, path, c)


def real_git_checks(run, path, c):
    global GIT_ENV
    if GIT_ENV is None:
        GIT_ENV = dict(os.environ)
        GIT_ENV["GIT_OPTIONAL_LOCKS"] = "0"
        GIT_ENV["GIT_CONFIG_GLOBAL"] = "/dev/null"
    a = FS.active
    FS.active = False
    try:
        d = os.path.join(run.arena.root, path.strip("/"))
        if not os.path.isdir(d):
            return
        run.count("git.fsck")
        p = subprocess.run(["git", "-c", "safe.directory=*", "fsck", "--strict", "--no-dangling"], cwd=d, env=GIT_ENV, capture_output=True, timeout=60)
        out = (p.stdout + p.stderr).decode("utf-8", "replace")
        bad = [l for l in out.splitlines() if l.startswith(("error", "missing", "broken", "fatal", "bad"))]
        if p.returncode != 0 or bad:
            run.v("C09", "C09.fsck", "%s: git fsck rc=%s %s" % (path, p.returncode, bad[:3] or out[:200]), backend=c.backend)
        if c.backend in ("tree", "gitcfg"):
            run.count("git.status")
            p = subprocess.run(["git", "-c", "safe.directory=*", "-c", "core.quotepath=false", "status", "--porcelain"], cwd=d, env=GIT_ENV, capture_output=True, timeout=60)
            lines = p.stdout.decode("utf-8", "replace").splitlines()
            bad = [l for l in lines if not (l.startswith("?? ") and l.rstrip().rstrip('"').endswith("/"))]
            if p.returncode != 0 or bad:
                run.v("C09", "C09.status-not-clean", "%s: git status: %s" % (path, bad[:4] or p.stderr[:200]), backend=c.backend)
    finally:
        FS.active = a


# ---------------------------------------------------------------------- C14
def c14(run, op, ctx, before, after, changed):
    if op.get("invalid"):
        run.nontrivial["invalid"] = run.nontrivial.get("invalid", 0) + 1
        if ctx.get("success"):
            run.v("C14", "C14.invalid-body-accepted", "PUT %s with a body of invalid class %r -> %s" % (ctx.get("rel"), op["invalid"], ctx.get("status")), cls=op["invalid"], ext=ctx.get("rel", "").rsplit(".", 1)[-1])
        elif changed:
            run.v("C14", "C14.refused-body-changed-state", "refused invalid body changed %s" % changed, cls=op["invalid"])
    for path, o in sorted(after.items()):
        c = run.model.colls.get(path)
        if c is None or c.kind not in ("calendar", "addressbook") or not o.exists:
            continue
        for n, m in o.members.items():
            if m.get("body") is None:
                continue
            kind = "ics" if n.endswith(".ics") else "vcf" if n.endswith(".vcf") else None
            if kind is None:
                continue
            why = icalparse.well_formed(m["body"], kind)
            if why:
                run.v("C14", "C14.stored-member-does-not-parse", "%s%s: %s" % (path, n, why), ext=kind)
    if ctx.get("reupload") and ctx.get("status") is not None:
        run.nontrivial["reupload"] = run.nontrivial.get("reupload", 0) + 1
        coll = ctx["coll"]
        o = after.get(coll)
        name = ctx["rel"][len(coll):]
        if not ctx.get("success"):
            run.v("C14", "C14.reupload-refused", "re-upload of served bytes to %s -> %s" % (ctx["rel"], ctx.get("status")), status=ctx.get("status"))
            return
        if ctx.get("put_etag") != ctx.get("old_etag"):
            run.v("C14", "C14.reupload-changed-etag", "%s: %s -> %s" % (ctx["rel"], ctx.get("old_etag"), ctx.get("put_etag")))
        if o is not None and o.exists:
            if o.tags != ctx.get("old_tags"):
                run.v("C14", "C14.reupload-changed-ctag", "%s: %s -> %s" % (coll, ctx.get("old_tags", {}).get("sync"), o.tags.get("sync")))
            ob = before.get(coll)
            if ob is not None and name in ob.members and name in o.members and ob.members[name].get("sha") != o.members[name].get("sha"):
                run.v("C14", "C14.reupload-changed-bytes", "%s served bytes changed" % ctx["rel"])
        cb = ctx.get("commits_before")
        ca = run.commit_count(coll)
        if cb is not None and ca is not None and ca != cb:
            run.v("C14", "C14.reupload-added-commit", "%s: %d -> %d commits" % (coll, cb, ca))


# ---------------------------------------------------------------------- C15
def c15(run, op, ctx, before, after, changed):
    for path, c in sorted(run.model.colls.items()):
        o = after.get(path)
        if o is None or not o.exists:
            continue
        for t, val in c.props.items():
            st, got = o.props.get(t, (None, None))
            if st != 200 or got != val:
                run.v("C15", "C15.value-not-read-back", "%s %s: set %r acknowledged, PROPFIND gives %s %r (after %s)" % (path, t, val, st, got, op["op"]),
                      prop_tag=t, backend=c.backend, after=op["op"] if op["op"] in ("restart", "evict") else "request")
            else:
                run.nontrivial.setdefault("readback", set()).add((path, t, val))
        for t, old in c.removed.items():
            st, got = o.props.get(t, (None, None))
            default = c.name if t == dav.P_DISPLAYNAME else None
            if st == 200 and old is not None and got == old and got != default:
                run.v("C15", "C15.removed-value-still-there", "%s %s: remove acknowledged but %r still returned" % (path, t, got), prop_tag=t, backend=c.backend)
            elif st == 200 and got not in (None, "", default):
                run.v("C15", "C15.value-after-remove", "%s %s: remove acknowledged, PROPFIND now returns %r (was %r)" % (path, t, got, old), prop_tag=t, backend=c.backend)
    if op["op"] == "proppatch" and ctx.get("status") == 207:
        others = [p for p in changed if p != ctx["rel"]]
        if others:
            run.v("C15", "C15.other-collection-changed", "PROPPATCH %s changed %s" % (ctx["rel"], others))
        ob, oa = before.get(ctx["rel"]), after.get(ctx["rel"])
        if ob is not None and oa is not None and ob.member_state() != oa.member_state():
            run.v("C15", "C15.member-changed", "PROPPATCH %s changed its members" % ctx["rel"])


# ---------------------------------------------------------------------- C16
def c16(run, op, ctx, after):
    w = run.world
    kind = op["op"]
    r = ctx.get("resp")
    if kind == "propfind" and r is not None and r.status == 207:
        check_depth(run, op, ctx, after)
    elif kind == "propfind" and r is not None and r.status >= 500 and ctx.get("read_fault"):
        # an injected read error may fail the request; it may not thin out a 207
        run.nontrivial["propfind_failed_under_read_fault"] = run.nontrivial.get("propfind_failed_under_read_fault", 0) + 1
    elif kind == "propfind" and r is not None and r.status >= 500:
        run.v("C16", "C16.propfind-failed", "PROPFIND %s Depth %s (%s) -> %s" % (op["path"], op.get("depth"), op.get("kind"), r.status), request=op.get("kind"))
    if kind == "post" and ctx.get("location") and ctx.get("success"):
        raw = dav.href_path(ctx["location"], w.target(op["coll"]))
        g = w.req("GET", target=raw)
        if g is None or g.status != 200 or not (g.body == ctx["body"] or icalparse.semantically_equal(ctx["body"], g.body)):
            run.v("C16", "C16.location-does-not-resolve", "POST %s -> Location %r; GET of it -> %s" % (op["coll"], ctx["location"], g.status if g else None), site="post-location")
        run.nontrivial["deref"] = run.nontrivial.get("deref", 0) + 1
    if kind in ("get", "head") and ctx.get("read_fault") and r is not None and r.status == 404 and run.find_live(op["path"]):
        # under a read error a request may fail; it may not deny a resource that exists
        run.v("C16", "C16.existing-resource-denied-under-read-error", "%s %s -> 404 while the member exists (read error injected)" % (kind.upper(), op["path"]), site="get")
    if kind == "proppatch" and ctx.get("ms_href") is not None and ctx.get("status") == 207:
        deref_collection(run, ctx["ms_href"], w.target(ctx["rel"]), ctx["rel"], after, "proppatch-response")
    # dereference every href of the listings, as sent
    for path, o in sorted(after.items()):
        if not o.exists:
            continue
        base = w.target(path)
        if o.self_href is not None:
            raw = dav.href_path(o.self_href, base)
            if rel_of(w, raw) is None or rel_of(w, raw).rstrip("/") != path.rstrip("/"):
                run.v("C16", "C16.self-href-wrong", "%s lists itself as %r" % (path, o.self_href), site="propfind-self")
            if dav.RT_COLLECTION in o.rtypes and not o.self_href.endswith("/"):
                run.v("C16", "C16.collection-href-no-slash", "%s lists itself as %r" % (path, o.self_href), site="propfind-self")
        for name, href in sorted(o.raw_hrefs.items()):
            raw = dav.href_path(href, base)
            if name.endswith("/"):
                deref_collection(run, href, base, path + name, after, "propfind-child-collection")
                continue
            m = o.members.get(name)
            if m is None or m.get("body") is None:
                continue
            g = w.req("GET", target=raw)
            run.nontrivial["deref"] = run.nontrivial.get("deref", 0) + 1
            if any(ch in name for ch in " %#?;+&=@:~(),'") or any(ord(ch) > 127 for ch in name):
                run.nontrivial.setdefault("special", set()).add(name)
            if g is None or g.status != 200 or g.body != m["body"]:
                run.v("C16", "C16.member-href-does-not-resolve", "%s lists %r as %r; GET of that -> %s%s" % (
                    path, name, href, g.status if g else None, "" if g is None or g.status != 200 else " (other bytes)"), site="propfind-member",
                    chars="".join(sorted(set(ch for ch in name if ch in " %#?;+&=@:~(),'"))) or ("unicode" if any(ord(ch) > 127 for ch in name) else "plain"))


def deref_collection(run, href, base, want_path, after, site):
    w = run.world
    raw = dav.href_path(href, base)
    r = w.req("PROPFIND", target=raw, headers=[("Depth", "0"), dav.XML_CT], body=dav.propfind_body([dav.P_RESOURCETYPE, dav.P_DISPLAYNAME]))
    run.nontrivial["deref"] = run.nontrivial.get("deref", 0) + 1
    ok = False
    if r is not None and r.status == 207:
        try:
            rs, _ = dav.parse_multistatus(r.body)
            if rs and rs[0].status in (None, 200) and rs[0].prop(dav.P_RESOURCETYPE) is not None:
                rt = frozenset(e.tag for e in rs[0].prop(dav.P_RESOURCETYPE))
                o = after.get(want_path if want_path.endswith("/") else want_path + "/")
                ok = o is None or rt == o.rtypes
        except (ET.ParseError, ValueError):
            ok = False
    if not ok:
        run.v("C16", "C16.collection-href-does-not-resolve", "href %r emitted for %s; PROPFIND of it -> %s" % (href, want_path, r.status if r else None), site=site)


def check_depth(run, op, ctx, after):
    w = run.world
    r = ctx["resp"]
    try:
        rs, _ = dav.parse_multistatus(r.body)
    except (ET.ParseError, ValueError):
        run.v("C16", "C16.unparseable-multistatus", "PROPFIND %s" % op["path"])
        return
    base = w.target(op["path"])
    rels = []
    for ms in rs:
        rel = rel_of(w, dav.href_path(ms.href or "", base))
        rels.append(rel)
        # href-valued properties
        for tag in (dav.P_CUP, dav.P_ADD_MEMBER):
            e = ms.prop(tag)
            if e is None:
                continue
            for h in dav.hrefs_in(e):
                want = "/user/" if tag == dav.P_CUP else (rel or "")
                deref_collection(run, h, base, want, after, "property-" + tag.split("}")[1])
    path = op["path"]
    cpath = path if path.endswith("/") else path + "/"
    if cpath in run.model.colls and op.get("kind", "prop") != "propname":
        # the addressed collection is described as what it is (also under an injected read error)
        o2 = after.get(cpath)
        for ms, rel in zip(rs, rels):
            if rel is not None and rel.rstrip("/") == cpath.rstrip("/") and o2 is not None and o2.exists:
                rt = ms.prop(dav.P_RESOURCETYPE)
                if rt is not None and frozenset(e.tag for e in rt) != o2.rtypes:
                    run.v("C16", "C16.collection-described-as-something-else", "PROPFIND %s: resourcetype %s, the audit sees %s" % (path, sorted(e.tag for e in rt), sorted(o2.rtypes)), site="propfind-self")
    if cpath in run.model.colls:
        o = after.get(cpath)
        want = {cpath}
        if op.get("depth") == "1" and o is not None:
            want |= {cpath + n for n in o.members} | {cpath + n + "/" for n in o.subs}
    else:
        want = {path}
    got = [x for x in rels]
    norm = lambda s: s  # noqa: E731
    if sorted(x for x in got if x is not None) != sorted(want) or None in got:
        # tolerate a missing trailing slash in the comparison only for non-collections
        if sorted((x or "").rstrip("/") for x in got) != sorted(x.rstrip("/") for x in want) or len(got) != len(want):
            run.v("C16", "C16.depth-%s-responses" % op.get("depth"), "PROPFIND %s Depth %s: responses %s, expected %s" % (path, op.get("depth"), sorted(str(x) for x in got)[:8], sorted(want)[:8]), depth=op.get("depth"))
    run.nontrivial.setdefault("depth", set()).add((path, op.get("depth")))


# ---------------------------------------------------------------------- C17
def norm_href(world, text, base):
    """Normalised server-relative path for a requested href, or None if it is
    malformed / outside the namespace."""
    if text is None or text == "":
        return ("malformed", None)
    try:
        if text.startswith("/") and not text.startswith("//"):
            u = "http://sim" + text  # absolute-path reference: keep the spelling as sent
        else:
            u = urllib.parse.urljoin("http://sim" + base, text)
        sp = urllib.parse.urlsplit(u)
        _ = sp.port
    except ValueError:
        return ("malformed", None)
    if "%" in sp.path:
        import re

        if re.search(r"%(?![0-9A-Fa-f]{2})", sp.path):
            return ("malformed", None)
    if sp.query or sp.fragment:
        return ("malformed", None)
    if sp.netloc != "sim":
        return ("outside", None)
    p = urllib.parse.unquote(sp.path)
    pre = world.prefix.rstrip("/")
    if pre and not (p == pre or p.startswith(pre + "/")):
        return ("outside", p)
    return ("inside", p[len(pre):] or "/")


def c17(run, op, ctx, after):
    if op["op"] != "report" or ctx.get("report") != "multiget":
        return
    r = ctx.get("resp")
    if r is None or r.status != 207:
        if r is not None and r.status >= 500 and ctx.get("read_fault"):
            # an injected read error may fail the report; a 207 still has to be right
            run.nontrivial["multiget_failed_under_read_fault"] = run.nontrivial.get("multiget_failed_under_read_fault", 0) + 1
            return
        if r is not None and r.status >= 500:
            run.v("C17", "C17.report-failed", "multiget on %s with %s -> %s" % (ctx["rel"], ctx.get("href_texts"), r.status), status=r.status)
        return
    try:
        rs, _ = dav.parse_multistatus(r.body)
    except (ET.ParseError, ValueError) as e:
        run.v("C17", "C17.unparseable", str(e))
        return
    which = ctx["which"]
    data_tag = dav.P_CALDATA if which == "calendar" else dav.P_ADDRDATA
    ext = ".ics" if which == "calendar" else ".vcf"
    base = run.world.target(ctx["rel"])
    texts = ctx["href_texts"]
    result = summarize_multiget(run, rs, base, data_tag)
    wanted = {}
    for t in texts:
        cls, rel = norm_href(run.world, t, base)
        wanted.setdefault((cls, rel if cls == "inside" else t), []).append(t)
    # every well-formed requested href answered exactly once
    for (cls, key), ts in sorted(wanted.items(), key=lambda kv: str(kv[0])):
        if cls == "malformed":
            continue
        hits = [x for x in result if x["cls"] == cls and (x["rel"] if cls == "inside" else x["href"]) == key]
        live = live_member(run, after, key, ext) if cls == "inside" else None
        label = "live" if live is not None else cls
        run.nontrivial.setdefault("classes", set()).add(label)
        if len(hits) != 1:
            run.v("C17", "C17.href-not-answered-once", "multiget %s: requested %r answered %d times" % (ctx["rel"], ts[0], len(hits)), href_class=label, n=len(hits))
            continue
        h = hits[0]
        if live is not None:
            if h["status"] != 200 or h["etag"] != live.get("etag") or h["data"] is None or nl(h["data"]) != nl(live["body"]):
                run.v("C17", "C17.live-resource-wrong", "multiget %s: %r -> status %s etag %s (current %s) data %s" % (
                    ctx["rel"], ts[0], h["status"], h["etag"], live.get("etag"), "missing" if h["data"] is None else "differs" if nl(h["data"]) != nl(live["body"]) else "ok"), href_class=label)
        else:
            if h["data"] is not None or h["status"] == 200 and h["data_status"] == 200:
                run.v("C17", "C17.data-for-nonresource", "multiget %s: %r (%s) answered with data" % (ctx["rel"], ts[0], label), href_class=label)
            elif not (h["status"] == 404 or h["data_status"] == 404):
                run.v("C17", "C17.no-404-for-nonresource", "multiget %s: %r (%s) -> status %s, data status %s" % (ctx["rel"], ts[0], label, h["status"], h["data_status"]), href_class=label)
    # responses nobody asked for
    keys = {k for (c, k) in wanted if c != "malformed"}
    for x in result:
        k = x["rel"] if x["cls"] == "inside" else x["href"]
        if k not in keys and x["data"] is not None:
            run.v("C17", "C17.unrequested-data", "multiget %s: response %r with data was not requested (%s)" % (ctx["rel"], x["href"], texts), href_class="unrequested")
    # independence: each href alone gives the same answer
    for (cls, key), ts in sorted(wanted.items(), key=lambda kv: str(kv[0])):
        if cls == "malformed" or len(wanted) == 1:
            continue
        r1 = run.world.req("REPORT", ctx["rel"], [dav.XML_CT, ("Depth", "1")], dav.multiget_body(which, [ts[0]]))
        if r1 is None or r1.status != 207:
            run.v("C17", "C17.depends-on-other-hrefs", "multiget %s: %r alone -> %s, in list -> 207" % (ctx["rel"], ts[0], r1.status if r1 else None))
            continue
        try:
            rs1, _ = dav.parse_multistatus(r1.body)
        except (ET.ParseError, ValueError):
            continue
        single = [x for x in summarize_multiget(run, rs1, base, data_tag)]
        lst = [x for x in result if x["cls"] == cls and (x["rel"] if cls == "inside" else x["href"]) == key]
        a = [(x["status"], x["etag"], x["data"], x["data_status"]) for x in single]
        b = [(x["status"], x["etag"], x["data"], x["data_status"]) for x in lst]
        if a != b:
            run.v("C17", "C17.depends-on-other-hrefs", "multiget %s: %r alone gives %s, within %s gives %s" % (ctx["rel"], ts[0], [(s, e) for s, e, _, _ in a], texts, [(s, e) for s, e, _, _ in b]))
    run.nontrivial["reports"] = run.nontrivial.get("reports", 0) + 1


def summarize_multiget(run, rs, base, data_tag):
    out = []
    for ms in rs:
        cls, rel = norm_href(run.world, ms.href, base)
        d = ms.prop(data_tag, None)
        dst = ms.prop_status(data_tag)
        data = None
        if d is not None and dst == 200 and d.text is not None:
            data = d.text.encode("utf-8")
        st = ms.status
        if st is None:
            st = 200 if any(code == 200 for code, _ in ms.propstats) else (ms.propstats[0][0] if ms.propstats else None)
        out.append({"href": ms.href, "cls": cls, "rel": rel, "status": st, "etag": ms.text(dav.P_GETETAG), "data": data, "data_status": dst})
    return out


def live_member(run, after, rel, ext):
    import posixpath

    # different spellings (doubled slashes, "." segments) address the same resource
    rel = posixpath.normpath(rel)
    for path, o in after.items():
        if rel.startswith(path) and o.exists:
            n = rel[len(path):]
            if n in o.members and n.endswith(ext) and o.members[n].get("body") is not None:
                return o.members[n]
    return None
