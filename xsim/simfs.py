"""SimFS: interposition on the file-system seam (DESIGN.md 2.2, 2.3).

The kernel stays the implementation; SimFS owns the *decision* at every call:
whether a mutation happens, tears, fails or kills the process, in which order
directory entries are listed, and - through `hook` - which simulated node runs
next.  Installed once per process by module-attribute patches; inert
(pass-through) unless `FS.active` is set.
"""

import builtins
import errno as _errno
import io
import os
import sys
import threading

_real = {}
ANON = object()

_MUT_AUDIT = {
    "os.rename",
    "os.remove",
    "os.mkdir",
    "os.rmdir",
    "os.chmod",
    "os.chown",
    "os.utime",
    "os.truncate",
    "os.link",
    "os.symlink",
}
_WFLAGS = os.O_WRONLY | os.O_RDWR | os.O_CREAT | os.O_TRUNC | os.O_APPEND


def _is_ref_path(p):
    if not isinstance(p, str):
        return False
    return "/refs/" in p or os.path.basename(p) in ("HEAD", "packed-refs", "ORIG_HEAD")


class SimCrash(BaseException):
    """The simulated server process dies here."""


def _p(path):
    if isinstance(path, int):
        try:
            return _real["readlink"]("/proc/self/fd/%d" % path)
        except OSError:
            return "<fd %d>" % path
    path = os.fspath(path)
    if isinstance(path, bytes):
        path = path.decode("utf-8", "surrogateescape")
    return path


def _pd(path, dir_fd):
    path = _p(path)
    if dir_fd is not None and not path.startswith("/"):
        return os.path.join(_p(dir_fd), path)
    return path


class SimRaw(io.RawIOBase):
    """Raw file whose write() is the interception point."""

    def __init__(self, fs, fd, path, mode, closefd=True):
        super().__init__()
        self._fs = fs
        self._fd = fd
        self._path = path
        self.mode = mode
        self.name = path if path is not ANON else fd
        self._closefd = closefd
        self._r = "r" in mode or "+" in mode
        self._append = "a" in mode

    def readable(self):
        return self._r

    def writable(self):
        return True

    def seekable(self):
        return True

    def fileno(self):
        return self._fd

    def isatty(self):
        return False

    def readinto(self, b):
        data = _real["read"](self._fd, len(b))
        n = len(data)
        b[:n] = data
        return n

    def write(self, b):
        data = bytes(b)
        n = len(data)
        fs = self._fs
        if self._path is not ANON and fs.active:
            if fs.frozen:
                return n  # dead process: buffered data never reaches the disk
            torn = fs._ev("write", (self._path,), True, nbytes=n)
            if torn is not None:
                off = torn
                if off > 0:
                    fs._raw_write(self._fd, data[:off])
                raise SimCrash("torn write %s at %d/%d" % (self._path, off, n))
        fs._raw_write(self._fd, data)
        return n

    def seek(self, pos, whence=0):
        return _real["lseek"](self._fd, pos, whence)

    def tell(self):
        return _real["lseek"](self._fd, 0, 1)

    def truncate(self, size=None):
        if size is None:
            size = self.tell()
        fs = self._fs
        if self._path is not ANON and fs.active:
            if fs.frozen:
                return size
            fs._ev("truncate", (self._path,), True)
        _real["ftruncate"](self._fd, size)
        return size

    def close(self):
        if self.closed:
            return
        try:
            super().close()
        finally:
            src = self._fs.mtime_source
            if src is not None and self._fs.active and self._path is not ANON:
                # file timestamps follow the simulated clock (coarse-granularity
                # file system / writes faster than the clock ticks)
                try:
                    t = src()
                    self._fs._call("utime", self._fd, ns=(t, t))
                except (OSError, ValueError, TypeError):
                    pass
            if self._closefd:
                self._fs.fd_paths.pop(self._fd, None)
                try:
                    _real["close"](self._fd)
                except OSError:
                    pass


class _ScanList:
    def __init__(self, entries):
        self._it = iter(entries)

    def __iter__(self):
        return self

    def __next__(self):
        return next(self._it)

    def __enter__(self):
        return self

    def __exit__(self, *a):
        return False

    def close(self):
        pass


class SimFS:
    def __init__(self):
        self.installed = False
        self.active = False
        self.fd_paths = {}
        self.bypass = []
        self._announced = 0  # depth: a finalizer that runs inside a sanctioned call makes sanctioned calls of its own
        self.reset()

    # -- per-run state ------------------------------------------------------
    def reset(self):
        self.active = False
        self.ev_seq = 0
        self.mut_seq = 0
        self.frozen = False
        self.crashed = False
        self.crash_at = None  # mutation index at which the process dies
        self.torn_frac = None  # for write events: fraction of bytes applied
        self.crash_event = None
        self.err_at = {}  # mutation index -> errno
        self.err_kinds = ("write", "creat", "trunc", "mkdir", "rename", "replace")
        self.err_fired = []
        self.read_err_at = {}  # event index -> errno (read side)
        self.read_err_kinds = ("open-r", "listdir", "scandir")
        # dulwich reads any OSError on a ref file as "this ref does not exist" (refs.read_loose_ref), which
        # makes a bare collection look empty for that request: a recorded finding (C07).  Read errors
        # land on ref files only where that finding is recognised structurally.
        self.read_err_refs = False
        self.hook = None  # hook(kind, paths, mut): scheduler yield point
        self.observers = []  # fn(kind, paths, mut)
        self.log = None  # list of (kind, paths) for mutations when recording
        self.listing_rng = None
        self.mtime_source = None
        self.counts = {}
        self.excl_busy = []  # (thread id, path) of O_EXCL creates that failed with EEXIST

    def _dir_times(self, path, created=False):
        """With simulated time stamps, directories get theirs from the simulated clock too: the
        directory an entry was added to or removed from (and a new directory itself)."""
        src = self.mtime_source
        if src is None or not isinstance(path, str):
            return
        try:
            t = src()
            for p in ([path] if created else []) + [os.path.dirname(path.rstrip("/")) or "/"]:
                self._call("utime", p, ns=(t, t))
        except (OSError, ValueError, TypeError, KeyError):
            pass

    def _raw_write(self, fd, data):
        mv = memoryview(data)
        while len(mv):
            k = _real["write"](fd, mv)
            mv = mv[k:]

    def _ev(self, kind, paths, mut, nbytes=None):
        """Announce an event.  Returns torn offset for a crashing write."""
        self.ev_seq += 1
        if self.hook is not None:
            self.hook(kind, paths, mut)
        for ob in self.observers:
            ob(kind, paths, mut)
        if self.read_err_at and self.ev_seq in self.read_err_at and (mut or kind not in self.read_err_kinds or (not self.read_err_refs and paths and _is_ref_path(paths[0]))):
            # stat() does not fail with EMFILE, and hardly ever with EIO: a read-side error waits for
            # the next open / listing (and is not spent on a mutation either)
            self.read_err_at[self.ev_seq + 1] = self.read_err_at.pop(self.ev_seq)
        if not mut:
            e = self.read_err_at.pop(self.ev_seq, None)
            if e is not None:
                self.err_fired.append((kind, paths, e))
                raise OSError(e, os.strerror(e), paths[0])
            return None
        if self.frozen:
            raise SimCrash("disk frozen")
        self.mut_seq += 1
        c = self.counts
        c[kind] = c.get(kind, 0) + 1
        if self.log is not None:
            self.log.append((kind, paths, nbytes))
        if self.crash_at is not None and self.mut_seq == self.crash_at:
            self.frozen = True
            self.crashed = True
            self.crash_event = (kind, paths, nbytes)
            if kind == "write" and self.torn_frac is not None and nbytes:
                off = int(self.torn_frac * nbytes)
                return max(0, min(nbytes, off))
            raise SimCrash("crash before %s %s" % (kind, paths))
        if self.err_at and kind in self.err_kinds:
            due = min(self.err_at)
            if self.mut_seq >= due:
                # an armed I/O error fires at the first eligible event at or
                # after its index (ENOSPC on an unlink would be nonsense)
                e = self.err_at.pop(due)
                self.err_fired.append((kind, paths, e))
                raise OSError(e, os.strerror(e), paths[0])
        return None

    def _call(self, name, *a, **kw):
        self._announced += 1
        try:
            return _real[name](*a, **kw)
        finally:
            self._announced -= 1

    # -- patched entry points ----------------------------------------------
    def p_open(self, file, mode="r", buffering=-1, encoding=None, errors=None,
               newline=None, closefd=True, opener=None):
        if not self.active or opener is not None:
            return _real["open"](file, mode, buffering, encoding, errors, newline, closefd, opener)
        writing = any(c in mode for c in "wax+")
        if isinstance(file, int):
            path = self.fd_paths.get(file)
            if not writing or path is None:
                return _real["open"](file, mode, buffering, encoding, errors, newline, closefd)
            fd = file
        else:
            path = _p(file)
            if not writing:
                self._ev("open-r", (path,), False)
                return _real["open"](file, mode, buffering, encoding, errors, newline, closefd)
            flags = os.O_CLOEXEC
            if "+" in mode:
                flags |= os.O_RDWR
            else:
                flags |= os.O_WRONLY
            if "w" in mode:
                flags |= os.O_CREAT | os.O_TRUNC
            elif "x" in mode:
                flags |= os.O_CREAT | os.O_EXCL
            elif "a" in mode:
                flags |= os.O_CREAT | os.O_APPEND
            fd = self.p_os_open(path, flags, 0o666)
        binary = "b" in mode
        if not binary and buffering == 0:
            raise ValueError("can't have unbuffered text I/O")
        raw = SimRaw(self, fd, path, mode, closefd)
        line_buffering = False
        if buffering == 1 and not binary:
            buffering = -1
            line_buffering = True
        if buffering < 0:
            try:
                bs = _real["fstat"](fd).st_blksize
            except (OSError, AttributeError):
                bs = 0
            buffering = bs if bs > 1 else io.DEFAULT_BUFFER_SIZE
        if buffering == 0:
            return raw
        if "+" in mode:
            buf = io.BufferedRandom(raw, buffering)
        else:
            buf = io.BufferedWriter(raw, buffering)
        if binary:
            return buf
        if encoding is None:
            encoding = "utf-8"
        t = io.TextIOWrapper(buf, encoding, errors, newline, line_buffering)
        t.mode = mode
        return t

    def p_os_open(self, path, flags, mode=0o777, *, dir_fd=None):
        if not self.active:
            return _real["os_open"](path, flags, mode, dir_fd=dir_fd)
        ap = _pd(path, dir_fd)
        tmpf = getattr(os, "O_TMPFILE", 0)
        if tmpf and (flags & tmpf) == tmpf:
            fd = self._call("os_open", path, flags, mode, dir_fd=dir_fd)
            self.fd_paths[fd] = ANON
            return fd
        if not (flags & _WFLAGS):
            self._ev("open-r", (ap,), False)
            return self._call("os_open", path, flags, mode, dir_fd=dir_fd)
        try:
            _real["lstat"](ap)
            existed = True
        except OSError:
            existed = False
        if existed and (flags & os.O_CREAT) and (flags & os.O_EXCL):
            self._ev("open-x-exists", (ap,), False)
            try:
                return self._call("os_open", path, flags, mode, dir_fd=dir_fd)
            except FileExistsError:
                # who found a lock file held (the syscall itself failed, not our peek)
                self.excl_busy.append((threading.get_ident(), ap))
                raise
        if not existed and not (flags & os.O_CREAT):
            self._ev("open-w-missing", (ap,), False)
            return self._call("os_open", path, flags, mode, dir_fd=dir_fd)
        if not existed:
            kind, mut = "creat", True
        elif flags & os.O_TRUNC:
            kind, mut = "trunc", True
        else:
            kind, mut = "open-w", False
        self._ev(kind, (ap,), mut)
        try:
            fd = self._call("os_open", path, flags, mode, dir_fd=dir_fd)
        except FileExistsError:
            if flags & os.O_EXCL:
                self.excl_busy.append((threading.get_ident(), ap))
            raise
        self.fd_paths[fd] = ap
        if kind == "creat":
            self._dir_times(ap)
        return fd

    def p_os_close(self, fd):
        self.fd_paths.pop(fd, None)
        return _real["close"](fd)

    def p_os_write(self, fd, data):
        if self.active:
            path = self.fd_paths.get(fd)
            if path is not None and path is not ANON:
                if self.frozen:
                    raise SimCrash("disk frozen")
                n = len(data)
                torn = self._ev("write", (path,), True, nbytes=n)
                if torn is not None:
                    if torn > 0:
                        self._raw_write(fd, bytes(data)[:torn])
                    raise SimCrash("torn os.write")
        return _real["write"](fd, data)

    def _mut1(self, kind, name):
        def f(path, *a, dir_fd=None, **kw):
            if not self.active:
                if dir_fd is not None:
                    kw["dir_fd"] = dir_fd
                return _real[name](path, *a, **kw)
            ap = _pd(path, dir_fd)
            self._ev(kind, (ap,), True)
            if dir_fd is not None:
                kw["dir_fd"] = dir_fd
            try:
                return self._call(name, path, *a, **kw)
            finally:
                self._dir_times(ap, created=(kind == "mkdir"))

        f.__name__ = name
        return f

    def _mut2(self, kind, name):
        def f(src, dst, *a, **kw):
            if not self.active:
                return _real[name](src, dst, *a, **kw)
            a1, a2 = _pd(src, kw.get("src_dir_fd")), _pd(dst, kw.get("dst_dir_fd"))
            self._ev(kind, (a1, a2), True)
            try:
                return self._call(name, src, dst, *a, **kw)
            finally:
                self._dir_times(a1)
                self._dir_times(a2)

        f.__name__ = name
        return f

    def _read1(self, kind, name):
        def f(path, *a, dir_fd=None, **kw):
            if dir_fd is not None:
                kw["dir_fd"] = dir_fd
            if not self.active:
                return _real[name](path, *a, **kw)
            if not isinstance(path, int):
                self._ev(kind, (_pd(path, dir_fd),), False)
            return _real[name](path, *a, **kw)

        f.__name__ = name
        return f

    def p_listdir(self, path="."):
        if not self.active:
            return _real["listdir"](path)
        self._ev("listdir", (_p(path),), False)
        res = self._call("listdir", path)
        if self.listing_rng is not None:
            res.sort()
            self.listing_rng.shuffle(res)
        return res

    def p_scandir(self, path="."):
        if not self.active:
            return _real["scandir"](path)
        self._ev("scandir", (_p(path),), False)
        with self._callctx():
            it = _real["scandir"](path)
        entries = list(it)
        it.close()
        if self.listing_rng is not None:
            entries.sort(key=lambda e: e.name)
            self.listing_rng.shuffle(entries)
        return _ScanList(entries)

    def _callctx(self):
        fs = self

        class C:
            def __enter__(s):
                fs._announced += 1

            def __exit__(s, *a):
                fs._announced -= 1
                return False

        return C()

    def p_fsync(self, fd):
        if self.active:
            path = self.fd_paths.get(fd)
            if path is not None and path is not ANON:
                self._ev("fsync", (path,), True)
        return _real["fsync"](fd)

    def p_ftruncate(self, fd, length):
        if self.active:
            path = self.fd_paths.get(fd)
            if path is not None and path is not ANON:
                self._ev("truncate", (path,), True)
        return _real["ftruncate"](fd, length)

    # -- installation -------------------------------------------------------
    def install(self):
        if self.installed:
            return
        r = _real
        r["open"] = builtins.open
        r["os_open"] = os.open
        r["close"] = os.close
        r["read"] = os.read
        r["write"] = os.write
        r["lseek"] = os.lseek
        r["fstat"] = os.fstat
        r["ftruncate"] = os.ftruncate
        r["fsync"] = os.fsync
        r["readlink"] = os.readlink
        for n in ("rename", "replace", "link", "symlink"):
            r[n] = getattr(os, n)
        for n in ("remove", "unlink", "mkdir", "rmdir", "chmod", "utime", "truncate", "chown"):
            r[n] = getattr(os, n)
        for n in ("stat", "lstat", "listdir", "scandir", "access"):
            r[n] = getattr(os, n)

        builtins.open = self.p_open
        io.open = self.p_open
        os.open = self.p_os_open
        os.close = self.p_os_close
        os.write = self.p_os_write
        os.fsync = self.p_fsync
        os.ftruncate = self.p_ftruncate
        for n in ("rename", "replace", "link", "symlink"):
            setattr(os, n, self._mut2(n, n))
        for n in ("remove", "unlink", "mkdir", "rmdir", "chmod", "utime", "truncate", "chown"):
            setattr(os, n, self._mut1(n, n))
        for n in ("stat", "lstat", "access"):
            setattr(os, n, self._read1(n, n))
        os.listdir = self.p_listdir
        os.scandir = self.p_scandir
        for s in ("supports_dir_fd", "supports_fd", "supports_follow_symlinks", "supports_effective_ids"):
            st = getattr(os, s, None)
            if st is None:
                continue
            for n, key in (("open", "os_open"), ("stat", "stat"), ("lstat", "lstat"), ("unlink", "unlink"),
                           ("rmdir", "rmdir"), ("mkdir", "mkdir"), ("scandir", "scandir"),
                           ("listdir", "listdir"), ("access", "access"), ("chmod", "chmod"),
                           ("utime", "utime"), ("rename", "rename"), ("link", "link"),
                           ("symlink", "symlink"), ("truncate", "truncate"), ("chown", "chown")):
                if r[key] in st:
                    st.add(getattr(os, n))
        sys.addaudithook(self._audit)
        self.installed = True

    def _audit(self, event, args):
        if not self.active or self._announced:
            return
        if event == "open":
            path, mode, flags = args
            if isinstance(path, int):
                return
            if flags is not None and (flags & _WFLAGS):
                self.bypass.append((event, _p(path)))
            else:
                for ob in self.observers:
                    ob("audit-open-r", (_p(path),), False)
        elif event in _MUT_AUDIT:
            self.bypass.append((event, repr(args[:2])))
        elif event in ("os.listdir", "os.scandir"):
            for ob in self.observers:
                ob("audit-" + event, (_p(args[0]) if args and args[0] is not None else ".",), False)


FS = SimFS()
