"""xsim - deterministic simulation with fault injection for xandikos.

See /verif/DESIGN.md.  Everything here runs with /venv/bin/python against the
xandikos sources found in $XSIM_REPO (default /repo), imported from the working
tree.
"""
