"""Seeded generators for resource bodies, names and property values."""

CRLF = "\r\n"

SUMMARIES = [
    "plain",
    "Team meeting",
    "comma\\, semi\\; backslash \\\\ done",
    "two\\nlines",
    "caf\u00e9 \u65e5\u672c\u8a9e",
    "percent % hash # colon : equals = [x]",
    "q \"quoted\" 'single'",
    "emoji \U0001F600 math \U0001D538 cjk-ext \U00020000",
    "line sep \u2028 para sep \u2029 nel \u0085 end",
]

TZ_AMS = (
    "BEGIN:VTIMEZONE\r\nTZID:Europe/Amsterdam\r\nBEGIN:STANDARD\r\nDTSTART:19701025T030000\r\n"
    "RRULE:FREQ=YEARLY;BYDAY=-1SU;BYMONTH=10\r\nTZOFFSETFROM:+0200\r\nTZOFFSETTO:+0100\r\n"
    "END:STANDARD\r\nBEGIN:DAYLIGHT\r\nDTSTART:19700329T020000\r\n"
    "RRULE:FREQ=YEARLY;BYDAY=-1SU;BYMONTH=3\r\nTZOFFSETFROM:+0100\r\nTZOFFSETTO:+0200\r\n"
    "END:DAYLIGHT\r\nEND:VTIMEZONE\r\n"
)


def _fold(line):
    b = line.encode("utf-8")
    if len(b) <= 75:
        return line
    out = []
    cur = ""
    curlen = 0
    for ch in line:
        l = len(ch.encode("utf-8"))
        if curlen + l > 74:
            out.append(cur)
            cur = " " + ch
            curlen = 1 + l
        else:
            cur += ch
            curlen += l
    out.append(cur)
    return "\r\n".join(out)


def escape_text(s):
    return s.replace("\\", "\\\\").replace(";", "\\;").replace(",", "\\,").replace("\n", "\\n")


def component(rng, comp, uid, rich, day=None, summary=None, fold=True):
    """Lines of one VEVENT/VTODO/VJOURNAL."""
    L = ["BEGIN:" + comp]
    if uid is not None:
        L.append("UID:" + escape_text(uid))
    L.append("DTSTAMP:20200101T000000Z")
    if day is None:
        day = rng.randint(1, 28)
    month = rng.randint(1, 6)
    d0 = "2020%02d%02d" % (month, day)
    d1 = "2020%02d%02d" % (month, min(28, day + 1) if day < 28 else 28)
    if comp == "VEVENT":
        style = rng.choice(["utc", "date", "tzid", "float", "dur"])
        if style == "utc":
            L += ["DTSTART:%sT100000Z" % d0, "DTEND:%sT110000Z" % d0]
        elif style == "date":
            L += ["DTSTART;VALUE=DATE:" + d0, "DTEND;VALUE=DATE:" + (d1 if d1 != d0 else "2020%02d29" % month if month != 2 else "20200301")]
        elif style == "tzid":
            L += ["DTSTART;TZID=Europe/Amsterdam:%sT100000" % d0, "DTEND;TZID=Europe/Amsterdam:%sT113000" % d0]
        elif style == "float":
            L += ["DTSTART:%sT090000" % d0, "DTEND:%sT093000" % d0]
        else:
            L += ["DTSTART:%sT100000Z" % d0, "DURATION:PT1H"]
    elif comp == "VTODO":
        style = rng.choice(["due", "none", "start"])
        if style == "due":
            L.append("DUE:%sT120000Z" % d0)
        elif style == "start":
            L += ["DTSTART:%sT080000Z" % d0, "DUE:%sT180000Z" % d0]
        L.append("STATUS:" + rng.choice(["NEEDS-ACTION", "COMPLETED", "IN-PROCESS"]))
    elif comp == "VFREEBUSY":
        L += ["DTSTART:%sT080000Z" % d0, "DTEND:%sT180000Z" % d0, "FREEBUSY;FBTYPE=BUSY:%sT100000Z/%sT110000Z" % (d0, d0)]
    else:
        L.append("DTSTART;VALUE=DATE:" + d0)
    if summary is None:
        summary = rng.choice(SUMMARIES)
    L.append(("COMMENT:" if comp == "VFREEBUSY" else "SUMMARY:") + summary)
    if rng.random() < 0.25:
        # present-but-falsy values
        L.append(rng.choice(["PRIORITY:0", "SEQUENCE:0", "PRIORITY:5", "SEQUENCE:2"] + (["PERCENT-COMPLETE:0", "PERCENT-COMPLETE:40"] if comp == "VTODO" else [])))
    if rich >= 1:
        if rng.random() < 0.5:
            L.append("DESCRIPTION:" + ("long text " * rng.randint(5, 20)).strip())
        if rng.random() < 0.4:
            L.append("CATEGORIES:" + rng.choice(["WORK", "HOME,FAMILY", "A,B,C"]))
        if rng.random() < 0.4:
            L.append("LOCATION:Room " + str(rng.randint(1, 9)))
    if rich >= 2:
        if comp == "VEVENT" and rng.random() < 0.5:
            L.append("RRULE:" + rng.choice(["FREQ=WEEKLY;COUNT=3", "FREQ=DAILY;COUNT=5", "FREQ=MONTHLY;COUNT=2;BYMONTHDAY=%d" % day]))
        if rng.random() < 0.5:
            if rng.random() < 0.5:
                # a repeated property, not in sorted order: the order is part of what is stored
                L.append("ATTENDEE;CN=Zed:mailto:zed@example.com")
            L.append('ATTENDEE;CN="Doe, Jane";ROLE=REQ-PARTICIPANT:mailto:jane@example.com')
        if rng.random() < 0.5:
            L.append("X-SIM-PROP;X-P=1:val %d" % rng.randint(0, 999))
        if comp in ("VEVENT", "VTODO") and rng.random() < 0.5:
            L += ["BEGIN:VALARM", "ACTION:DISPLAY", "DESCRIPTION:reminder", "TRIGGER:-PT15M", "END:VALARM"]
    L.append("END:" + comp)
    if fold:
        L = [_fold(x) for x in L]
    return L


def ics(rng, uid, comp=None, rich=None, ncomp=1, lineend="\r\n", summary=None, day=None):
    free = comp is None
    if comp is None:
        comp = rng.choice(["VEVENT", "VEVENT", "VTODO", "VJOURNAL"])
    if rich is None:
        rich = rng.choice([0, 1, 2])
    if free and rng.random() < 0.06:
        # free-busy objects are calendar object resources too
        comp = "VFREEBUSY"
    L = ["BEGIN:VCALENDAR", "VERSION:2.0", "PRODID:-//xsim//gen//EN"]
    body = []
    for i in range(ncomp):
        body += component(rng, comp, uid, rich, day=day, summary=summary)
    if free and comp == "VEVENT" and ncomp == 1 and uid is not None and rng.random() < 0.08:
        # an overridden instance of the same event (same UID, RECURRENCE-ID)
        ov = component(rng, comp, uid, 0, day=day, summary="moved instance")
        ov.insert(2, "RECURRENCE-ID:2020%02d%02dT100000Z" % (rng.randint(1, 6), rng.randint(1, 28)))
        body += ov
    text = "\r\n".join(L) + "\r\n" + "\r\n".join(body) + "\r\n"
    if "TZID=Europe/Amsterdam" in text:
        text += TZ_AMS
    text += "END:VCALENDAR\r\n"
    if lineend != "\r\n":
        text = text.replace("\r\n", lineend)
    return text.encode("utf-8")


def vcf(rng, uid=None, fn=None):
    if fn is None:
        fn = rng.choice(["Jane Doe", "J\u00fcrgen M\u00fcller", "\u5c71\u7530 \u592a\u90ce", "O'Brien; Pat", "A, B"])
    last, _, first = fn.partition(" ")
    L = ["BEGIN:VCARD", "VERSION:3.0"]
    if uid is not None:
        L.append("UID:" + uid)
    L.append("FN:" + escape_text(fn))
    L.append("N:%s;%s;;;" % (escape_text(last), escape_text(first)))
    if rng.random() < 0.6:
        L.append("EMAIL;TYPE=INTERNET:%s@example.com" % rng.choice(["a", "b", "c.d"]))
    if rng.random() < 0.4:
        L.append("TEL;TYPE=CELL:+1 555 %04d" % rng.randint(0, 9999))
    if rng.random() < 0.3:
        L.append("NOTE:" + ("note text " * rng.randint(3, 15)).strip())
    if rng.random() < 0.25:
        L.append("NOTE:" + rng.choice(["first paragraph\u2028second paragraph", "nel\u0085inside", "emoji \U0001F600 \U0001F468", "para\u2029sep", "cjk-ext \U00020000"]))
    L.append("END:VCARD")
    nl = "\n" if rng.random() < 0.2 else "\r\n"
    # (a card need not end with a line terminator: vCards are served byte for byte as uploaded)
    end = "" if rng.random() < 0.08 else nl
    return (nl.join(_fold(x).replace("\r\n", nl) for x in L) + end).encode("utf-8")


def opaque(rng):
    n = rng.randint(0, 200)
    return bytes(rng.getrandbits(8) for _ in range(n)) if rng.random() < 0.3 else (
        "text %d\n" % rng.randint(0, 10 ** 6) * rng.randint(1, 5)
    ).encode()


INVALID_ICS = {
    "text": lambda rng: b"this is not a calendar %d\n" % rng.randint(0, 999),
    "empty": lambda rng: b"",
    "truncated": lambda rng: ics(rng, "trunc-uid")[: -rng.randint(15, 60)],
    "control": lambda rng: ics(rng, "ctl-uid", summary="bad\x01char"),
    "control-nested": lambda rng: ics(rng, "ctl2-uid", comp="VEVENT", rich=0).replace(
        b"END:VEVENT", rng.choice([b"BEGIN:VALARM\r\nACTION:DISPLAY\r\nDESCRIPTION:bad\x0cchar\r\nTRIGGER:-PT15M\r\nEND:VALARM\r\nEND:VEVENT",
                                   b"BEGIN:VALARM\r\nACTION:DISPLAY\r\nDESCRIPTION:bad\x01char\r\nTRIGGER:-PT5M\r\nEND:VALARM\r\nEND:VEVENT"])),
    "control-timezone": lambda rng: ics(rng, "ctl3-uid", comp="VEVENT", rich=0).replace(
        b"END:VCALENDAR", b"BEGIN:VTIMEZONE\r\nTZID:X/Y\r\nBEGIN:STANDARD\r\nDTSTART:19701025T030000\r\nTZNAME:bad\x01\r\nTZOFFSETFROM:+0200\r\nTZOFFSETTO:+0100\r\nEND:STANDARD\r\nEND:VTIMEZONE\r\nEND:VCALENDAR"),
    "html": lambda rng: b"<html><body>nope</body></html>",
}

INVALID_VCF = {
    "text": lambda rng: b"just some text %d\n" % rng.randint(0, 999),
    "empty": lambda rng: b"",
    "nobeginend": lambda rng: b"VERSION:3.0\r\nFN:No Begin\r\nN:Begin;No;;;\r\n",
    "truncated": lambda rng: vcf(rng, "tr")[:-10],
    "noend": lambda rng: b"BEGIN:VCARD\r\nVERSION:3.0\r\nFN:X Y\r\nN:Y;X;;;\r\n",
}

NAMES_SIMPLE = ["a", "b", "c", "ev1", "ev2", "item-3", "x_y"]
NAMES_URLSIG = ["a b", "per%cent", "p%20q", "ha#sh", "qu?ery", "se;mi", "pl+us", "am&p", "eq=ual", "at@sign", "col:on", "til~de", "par(en)", "com,ma", "quo'te",
                # dot files are ordinary members (only .xandikos and .git are the server's)
                ".dot", ".hid.den"]
NAMES_UNICODE = ["caf\u00e9", "\u65e5\u672c", "\u00fcber", "na\u00efve \u00e9t\u00e9",
                 # not in Unicode normal form C: decomposed accent, singleton, conjoining jamo
                 "cafe\u0301", "\u212bngstrom", "\u1112\u1161\u11ab"]


def member_base(rng, mode):
    r = rng.random()
    if mode == "simple" or (mode == "mixed" and r < 0.6):
        return rng.choice(NAMES_SIMPLE)
    if mode == "urlsig" or (mode == "mixed" and r < 0.85):
        return rng.choice(NAMES_URLSIG)
    return rng.choice(NAMES_UNICODE)


PROP_TEXTS = [
    "Work",
    "My Calendar",
    "100%",
    "50%% off",
    "%(x)s",
    "a = b",
    "key: value",
    "[section]",
    "#hash first",
    "semi;colon",
    "quote \" and ' end",
    "caf\u00e9 \u65e5\u672c",
    "tab\tinside",
    "line1\nline2",
    # line boundaries for str.splitlines() but not for a text file: LS, NEL, PS
    "Team\u2028room = 4",
    "next\u0085line",
    "para\u2029graph: x",
    "back\\slash",
    "x" * 80,
]


def prop_text(rng, allow_semicolon=True, allow_newline=True):
    while True:
        t = rng.choice(PROP_TEXTS)
        if rng.random() < 0.3:
            t = t + " " + str(rng.randint(0, 99))
        if not allow_semicolon and ";" in t:
            continue
        if not allow_newline and "\n" in t:
            continue
        return t


def color(rng):
    c = "#%06X" % rng.getrandbits(24)
    if rng.random() < 0.3:
        c += "%02X" % rng.getrandbits(8)
    return c
