"""E-PATH: nothing outside the data directory (C13).

Adversarial request targets (and hrefs inside report bodies) through both
front ends, at arbitrary points of ordinary write histories.  Every fs event
of the server during request handling is observed on the SimFS seam and by
the Python audit hook, resolved, and classified against the arena layout:

    <arena>/root     the server's directory (everything allowed)
    <arena>/tmp      anonymous temp files only
    <arena>/outside  decoys: a git collection and loose .ics files
"""

import hashlib
import os
import random
import urllib.parse

from .. import dav, gen
from ..rng import H
from ..simclock import CLOCK
from ..simfs import FS
from ..world import Arena, World
from .crash import create_store, close_store, dir_digest

MARK = "DECOY-SECRET-7f3a"

DOTS = ["..", "%2e%2e", "%2E%2E", ".%2e", "%2e.", "%2E.", "..;", "..%00", "%252e%252e",
        # characters that some normalisation turns into dots: U+2025 two dot leader, fullwidth full
        # stops, one dot leaders, and the overlong UTF-8 spelling of '.'
        "%E2%80%A5", "%EF%BC%8E%EF%BC%8E", "%E2%80%A4%E2%80%A4", ".%EF%BC%8E", "%c0%ae%c0%ae"]
SLASH = ["/", "/", "//", "%2f", "%2F", "%5c", "/./", "/", "/", "%EF%BC%8F", "%c0%af"]


def make_config(seed, tier):
    r = random.Random(H("pathcfg", seed))
    return {
        "seed": seed,
        "frontend": r.choice(["aiohttp", "wsgi"]),
        "prefix": r.choice(["/", "/", "/dav/", "/a/b/"]),
        "strict": r.random() < 0.7,
        "autocreate": "defaults",
        "listing": True,
        "steps": r.randint(15, 30) if tier == "quick" else r.randint(25, 70),
        "oracle4": tier == "thorough" or r.random() < 0.3,
    }


def evil_path(r, prefix):
    """A request path (already percent-encoded, without the route prefix)."""
    bases = ["/", "/user/", "/user/calendars/", "/user/calendars/calendar/", "/user/calendars/calendar/a.ics", "/user/contacts/addressbook/"]
    base = r.choice(bases)
    depth = base.rstrip("/").count("/") if base != "/" else 0
    k = r.random()
    tail = r.choice(["root-old/x", "root.bak/new", "rootx", "root-old/", "outside/x.ics", "outside/secret.ics", "outside/col/", "outside/col/m.ics", "outside/newcol", "outside/newcol/", "outside", "tmp/x", "", "root/user/", "outside/col/.git/config", "evil",
                     # the dumb git protocol of a repository next to the root
                     "outside/col/.git/HEAD", "outside/col/.git/info/refs", "outside/col/.git/objects/info/packs"])
    if k < 0.55:
        # climb out by exactly (or about) the depth of the base
        up = depth + r.choice([0, 1, 1, 1, 2, 3])
        d = r.choice(DOTS)
        sl = r.choice(SLASH)
        segs = sl.join([d if r.random() < 0.8 else r.choice(DOTS) for _ in range(up)])
        b = base if base.endswith("/") else base + "/"
        return b + segs + sl + tail
    if k < 0.7:
        return "/" + "/".join([r.choice(DOTS)] * r.randint(1, 4)) + "/" + tail
    if k < 0.8:
        return "//" + tail
    if k < 0.87:
        return base + "x" * 300 + "/../" * r.randint(1, 5) + tail
    if k < 0.94:
        return base.rstrip("/") + r.choice(["/.", "/..", "/./.", "/%2e", "/%2e%2e/", "/..%2f..%2f..%2f" + tail])
    return "/user/calendars/calendar/" + urllib.parse.quote(r.choice(["..", ".", "...", ".git", ".git/config", ".xandikos"]))


class PathRun:
    def __init__(self, cfg, ops=None, tag="path"):
        self.cfg = cfg
        self.replay_ops = ops
        self.ops = []
        self.tag = tag
        self.violations = []
        self.stats = {}
        self.rng = random.Random(H("pathwork", cfg["seed"]))
        self.events = []
        self.recording = False
        self.digest = hashlib.sha256()
        self.digest_hi = hashlib.sha256()
        self.samples = []
        self.nontrivial = set()
        self.fresh = 0

    def count(self, k, n=1):
        self.stats[k] = self.stats.get(k, 0) + n

    def observer(self, kind, paths, mut):
        if self.recording:
            self.events.append((kind, paths, mut))

    def build_decoys(self):
        out = self.arena.outside
        os.makedirs(out)
        with open(os.path.join(out, "secret.ics"), "wb") as f:
            f.write(gen.ics(random.Random(1), "decoy-uid", summary=MARK))
        with open(os.path.join(out, "x.ics"), "wb") as f:
            f.write(gen.ics(random.Random(2), "decoy-uid-2", summary=MARK))
        for sib in ("root-old", "root.bak"):
            os.makedirs(os.path.join(self.arena.path, sib))
            with open(os.path.join(self.arena.path, sib, "keep.ics"), "wb") as f:
                f.write(gen.ics(random.Random(4), "decoy-uid-4", summary=MARK))
        st = create_store("tree", os.path.join(out, "col"))
        st.set_type("calendar")
        st.import_one("m.ics", "text/calendar", [gen.ics(random.Random(3), "decoy-uid-3", summary=MARK)])
        close_store(st)

    def outside_digest(self):
        a = FS.active
        FS.active = False
        try:
            h = hashlib.sha1()
            for name in sorted(os.listdir(self.arena.path)):
                if name in ("root", "tmp", "pre4", "twin4"):
                    continue
                p = os.path.join(self.arena.path, name)
                h.update(name.encode() + b"\0" + (dir_digest(p) if os.path.isdir(p) else "file").encode())
            # the arena's parent must not gain entries either
            h.update(repr(sorted(os.listdir(os.path.dirname(self.arena.path)))).encode() if os.environ.get("XSIM_STRICT_PARENT") else b"")
            return h.hexdigest()
        finally:
            FS.active = a

    def gen_op(self):
        r = self.rng
        q = getattr(self, "queue", None)
        if q:
            return q.pop(0)
        k = r.random()
        if r.random() < 0.05:
            # no odd path at all: a control directory is planted with ordinary names (.git, objects, refs,
            # HEAD, config) below a plain directory or a collection, its configuration points the work
            # tree somewhere else, and an ordinary PUT follows
            base = r.choice(["/user", "/user", "/user/calendars", "/user/contacts", "/user/calendars/calendar/sub"])
            wt = r.choice(["../../..", "../../../..", "../..", "../../../outside", "../../../../outside/col"])
            def rq(method, path, body=None, ct=None):
                o = {"op": "req", "method": method, "path": path, "salt": r.getrandbits(32)}
                if body is not None:
                    o["body"], o["ctype"] = body, ct
                return o
            seq = []
            if base.endswith("/sub"):
                seq.append(rq("MKCOL", base))
            seq += [rq("MKCOL", base + "/.git"), rq("MKCOL", base + "/.git/objects"), rq("MKCOL", base + "/.git/refs"),
                    rq("PUT", base + "/.git/HEAD", "ref: refs/heads/master\n", "text/plain"),
                    rq("PUT", base + "/.git/config", "[core]\n\trepositoryformatversion = 0\n\tbare = false\n\tworktree = %s\n" % wt, "text/plain"),
                    rq("PUT", base + "/planted.ics", gen.ics(r, "planted-uid").decode("latin-1"), "text/calendar"),
                    rq("PROPFIND", base + "/"), rq("DELETE", base + "/planted.ics")]
            seq[-2]["depth"] = "1"
            self.queue = seq[1:]
            return seq[0]
        if k < 0.25:
            # ordinary traffic so that state exists
            self.fresh += 1
            name = r.choice(["a.ics", "b.ics", "n%d.ics" % self.fresh])
            return {"op": "req", "method": "PUT", "path": "/user/calendars/calendar/" + name, "ctype": "text/calendar", "body": gen.ics(r, "uid-" + name).decode("latin-1"), "benign": True, "salt": r.getrandbits(32)}
        method = r.choice(["GET", "HEAD", "PUT", "PUT", "POST", "DELETE", "DELETE", "MKCOL", "MKCOL", "MKCALENDAR", "MKCALENDAR", "PROPFIND", "PROPFIND", "PROPPATCH", "REPORT", "REPORT", "OPTIONS"])
        path = evil_path(r, self.cfg["prefix"])
        op = {"op": "req", "method": method, "path": path, "salt": r.getrandbits(32)}
        if r.random() < 0.07:
            # no dot segments at all: the URL path simply is the absolute host path of something that exists
            op["host_path"] = r.choice(["outside/col", "outside/col/", "outside", "root-old", "root-old/keep.ics", "outside/col/deeper/new"])
            op["path"] = "/<host>/" + op["host_path"]
        if method in ("PUT", "POST"):
            op["ctype"] = r.choice(["text/calendar", "text/calendar", "application/octet-stream"])
            uid = r.choice(["evil-uid", "../../../../outside/escaped", "../../../../../outside/col/m", "/etc/evil", "..", "a/../../../../outside/x", "evil-uid-2"])
            op["body"] = gen.ics(r, uid).decode("latin-1")
            if method == "POST" and r.random() < 0.6:
                # an ordinary target with a hostile body
                op["path"] = r.choice(["/user/calendars/calendar/", "/user/calendars/", "/user/contacts/addressbook/"])
        elif method == "MKCOL" and r.random() < 0.5:
            op["ctype"] = "text/xml"
            op["body"] = dav.mkcol_body([dav.RT_COLLECTION, dav.RT_CALENDAR], [(dav.P_DISPLAYNAME, "x")]).decode("latin-1")
        elif method == "PROPFIND":
            op["depth"] = r.choice(["0", "1", "infinity"])
            op["ctype"] = "text/xml"
            op["body"] = dav.propfind_body(kind="allprop").decode("latin-1")
        elif method == "PROPPATCH":
            op["ctype"] = "text/xml"
            op["body"] = dav.proppatch_body([("set", dav.P_DISPLAYNAME, "evil")]).decode("latin-1")
        elif method == "REPORT":
            op["ctype"] = "text/xml"
            pre = self.cfg["prefix"].rstrip("/")
            if r.random() < 0.7:
                op["path"] = "/user/calendars/calendar/" if r.random() < 0.7 else path
                hrefs = [pre + evil_path(r, self.cfg["prefix"]) for _ in range(r.randint(1, 3))]
                op["body"] = dav.multiget_body("calendar", hrefs).decode("latin-1")
                op["depth"] = "1"
            else:
                op["body"] = dav.sync_body("").decode("latin-1")
        return op

    def run(self):
        self.arena = Arena(self.tag)
        CLOCK.reset()
        FS.reset()
        self.build_decoys()
        w = self.world = World(self.arena, self.cfg)
        try:
            w.boot()
            FS.observers.append(self.observer)
            self.base_digest = self.outside_digest()
            if self.replay_ops is not None:
                for op in self.replay_ops:
                    self.step(dict(op))
            else:
                if self.rng.random() < 0.3:
                    # inside the root there is a collection where the clamped form of an escaping path
                    # points (the twin of the repository outside)
                    for p in ("/outside", "/outside/col"):
                        self.step({"op": "req", "method": "MKCOL", "path": p, "benign": True, "salt": 0})
                for i in range(self.cfg["steps"]):
                    self.step(self.gen_op())
                if self.rng.random() < 0.2:
                    # the account is emptied with ordinary requests: whatever gets tidied up with
                    # the collections, the root directory itself and everything above it stay
                    for p in ("/user/calendars/", "/user/contacts/", "/user/inbox/"):
                        self.step({"op": "req", "method": "DELETE", "path": p, "benign": True, "salt": 0})
        finally:
            nreq = w.nreq
            FS.observers = []
            w.shutdown()
            FS.active = False
            self.arena.destroy()
        seen, uniq = set(), []
        for v in self.violations:
            k = repr(sorted(v["sig"].items()))
            if k not in seen:
                seen.add(k)
                uniq.append(v)
        return {"violations": uniq[:6], "cfg": self.cfg, "ops": self.ops, "stats": self.stats, "digest": self.digest.hexdigest(), "digest_hi": self.digest_hi.hexdigest(),
                "nontrivial_keys": sorted(self.nontrivial), "world": {"virtual_s": w.virtual_s, "nreq": nreq},
                "fs": {"bypass": len(FS.bypass), "bypass_sample": FS.bypass[:3]}, "samples": self.samples}

    def classify(self, p):
        a = self.arena
        if not p.startswith("/"):
            p = os.path.join(os.getcwd(), p)
        try:
            rp = os.path.realpath(p)
        except ValueError:  # embedded NUL: the kernel never saw this path
            rp = os.path.normpath(p.replace("\0", ""))
        if rp == a.root or rp.startswith(a.root + "/"):
            return "root", rp
        if rp == a.tmp or rp.startswith(a.tmp + "/"):
            return "tmp", rp
        if rp == a.path or rp.startswith(a.path + "/"):
            return "arena-outside-root", rp
        from ..env import SHM

        home = os.environ.get("HOME", "")
        if home and (rp == home or rp.startswith(home.rstrip("/") + "/")):
            return "system", rp  # the harness' own (empty) HOME: git configuration look-ups
        # everything else on the scratch file system (levels above the arena) is outside the root too
        if rp == SHM or rp.startswith(SHM.rstrip("/") + "/"):
            return "arena-outside-root", rp
        return "system", rp

    def step(self, op):
        self.ops.append(op)
        w = self.world
        w.reseed(op.get("salt", 0))
        method = op["method"]
        self.count("method." + method)
        if op.get("host_path") is not None:
            # the request path spells an absolute path of the host (of a decoy next to the root)
            op = dict(op, path=urllib.parse.quote(os.path.join(self.arena.path, op["host_path"])))
        target = self.cfg["prefix"].rstrip("/") + op["path"]
        hdrs = []
        if op.get("ctype"):
            hdrs.append(("Content-Type", op["ctype"]))
        if op.get("depth"):
            hdrs.append(("Depth", op["depth"]))
        body = op.get("body", "").encode("latin-1")
        check4 = (not op.get("benign")) and method in ("PUT", "POST", "DELETE", "MKCOL", "MKCALENDAR", "PROPPATCH") and self.cfg.get("oracle4")
        if check4:
            pre_copy = os.path.join(self.arena.path, "pre4")
            a0 = FS.active
            FS.active = False
            from ..world import rmtree_real

            rmtree_real(pre_copy)
            import shutil

            shutil.copytree(self.arena.root, pre_copy, symlinks=True)
            pre_state = self.work_state(self.arena.root)
            FS.active = a0
        self.events = []
        self.recording = True
        try:
            r = w.req(method, target=target, headers=hdrs, body=body)
        finally:
            self.recording = False
        status = r.status if r is not None else None
        evs = self.events
        self.events = []
        a = FS.active
        FS.active = False
        try:
            self.judge(op, target, status, r, evs)
        finally:
            FS.active = a
        # (the recorded spelling of the path: a host path contains the scratch directory's name)
        self.digest.update(("%s %s %s %d\n" % (method, self.ops[-1]["path"], status, len(evs))).encode())
        # the number of fs events depends on hash order inside dulwich: not part of the digest that is
        # compared across hash seeds
        self.digest_hi.update(("%s %s %s\n" % (method, self.ops[-1]["path"], status)).encode())
        if check4:
            self.oracle4(op, method, target, hdrs, body, status, pre_copy, pre_state)

    def work_state(self, root):
        """Logical contents of a data directory: every file outside .git with its bytes."""
        a = FS.active
        FS.active = False
        try:
            out = {}
            for d, dirs, files in os.walk(root):
                dirs[:] = sorted(x for x in dirs if x != ".git")
                rel = os.path.relpath(d, root)
                bare = all(os.path.exists(os.path.join(d, x)) for x in ("objects", "refs", "HEAD"))
                if bare:
                    dirs[:] = []
                    out[rel + "/"] = "bare-repo"
                    continue
                out[rel + "/"] = "dir"
                for f in sorted(files):
                    with open(os.path.join(d, f), "rb") as fh:
                        out[os.path.join(rel, f)] = hashlib.sha1(fh.read()).hexdigest()
            return out
        finally:
            FS.active = a

    def oracle4(self, op, method, target, hdrs, body, status, pre_copy, pre_state):
        """A request whose path would leave the root is answered as if it addressed
        the normalised path inside the root, or is refused (DESIGN.md 4/C13 (4))."""
        import posixpath
        import shutil

        from ..world import World, rmtree_real

        post_state = self.work_state(self.arena.root)
        if post_state == pre_state:
            return
        self.count("oracle4_state_changing_requests")
        pre = self.cfg["prefix"].rstrip("/")
        raw_path = op["path"]
        # on bytes: the path may carry octets that are not UTF-8, and must keep them
        decoded = urllib.parse.unquote_to_bytes(raw_path)
        try:
            decoded.decode("utf-8")
        except UnicodeDecodeError:
            # undecodable escapes reach the file system as literal "%c0%af" text (aiohttp) or as
            # surrogates (WSGI); no other spelling of the target is byte-for-byte the same request
            self.count("oracle4_skipped_not_utf8")
            return
        norm = posixpath.normpath(b"/" + decoded)
        if decoded.endswith(b"/") and not norm.endswith(b"/"):
            norm += b"/"
        while norm.startswith(b"//"):
            norm = norm[1:]
        ntarget = pre + urllib.parse.quote(norm, safe="/")
        # twin: a fresh server on a clone of the pre-state
        a0 = FS.active
        FS.active = False
        twin_root = os.path.join(self.arena.path, "twin4")
        rmtree_real(twin_root)
        shutil.copytree(pre_copy, twin_root, symlinks=True)
        keep = (FS.observers, FS.listing_rng)
        main_srv = self.world.srv
        # the twin must not (re-)create default collections the clone does not have
        tw = World(self.arena, dict(self.cfg, autocreate=None))
        tw.arena = type("A", (), {"root": twin_root, "path": self.arena.path, "tmp": self.arena.tmp, "rel": self.arena.rel})()
        import asyncio

        try:
            FS.active = True
            tw.boot()
            tw.reseed(op.get("salt", 0))
            self.world.reseed(op.get("salt", 0))
            r2 = tw.req(method, target=ntarget, headers=hdrs, body=body)
            tw.srv.stop()
        finally:
            FS.active = False
            asyncio.set_event_loop(main_srv.loop)
        twin_state = self.work_state(twin_root)
        rmtree_real(twin_root)
        FS.active = a0
        if twin_state != post_state:
            diff = sorted(set(post_state.items()) ^ set(twin_state.items()))[:4]
            self.add("C13.effect-differs-from-normalised-target", "%s %s -> %s changed the data directory, but not like %s %s (-> %s) does: %s" % (
                method, target, status, method, ntarget, r2.status if r2 else None, diff), {"frontend": self.cfg["frontend"], "method": method}, set())

    def judge(self, op, target, status, r, evs):
        if not op.get("benign"):
            self.count("adversarial_requests")
            self.nontrivial.add(hashlib.sha1((op["method"] + " " + op["path"]).encode()).hexdigest()[:16])
        sigbase = {"frontend": self.cfg["frontend"], "method": op["method"]}
        flagged = set()
        tmp_named = set()
        for kind, paths, mut in evs:
            self.count("fs_events_observed")
            for p in paths:
                if not isinstance(p, str) or p.startswith("<fd") or "\0" in p:
                    continue  # a path with NUL never reaches the kernel
                zone, rp = self.classify(p)
                if zone == "root":
                    if mut and rp == self.arena.root and kind in ("rmdir", "rename", "replace", "unlink", "remove"):
                        # the root's own entry lives in its parent directory
                        self.add("C13.mutation-outside-root", "%s %s -> %s: %s of the root directory itself" % (op["method"], target, status, kind), dict(sigbase, zone="root-entry"), flagged)
                    continue
                if zone == "tmp":
                    # anonymous scratch files are fine there (they never get a name); a *named* file
                    # is user data created outside the root, however briefly it lives
                    # anonymous scratch files are fine there, and so is a named scratch file that is
                    # removed again before the request ends (tempfile falls back to that); a file that
                    # is moved from there into place, or stays, is user data outside the root
                    if kind in ("rename", "replace", "link", "symlink"):
                        self.count("tmp_zone_named." + kind)
                        self.add("C13.user-data-in-temp-dir", "%s %s -> %s: %s of <tmp>/%s" % (op["method"], target, status, kind, os.path.basename(rp)), dict(sigbase, zone="tmp", how="moved"), flagged)
                    elif kind in ("creat", "mkdir"):
                        tmp_named.add(rp)
                    continue
                if zone == "system":
                    if mut:
                        self.add("C13.mutation-outside-root", "%s %s -> %s: %s of %s" % (op["method"], target, status, kind, rp), dict(sigbase, zone="system"), flagged)
                    continue
                rel = self.arena.rel(rp)
                if mut:
                    self.add("C13.mutation-outside-root", "%s %s -> %s: %s of <arena>%s" % (op["method"], target, status, kind, rel), dict(sigbase, zone="arena"), flagged)
                elif kind in ("stat", "lstat", "access"):
                    self.add("C13.probe-outside-root", "%s %s -> %s: %s of <arena>%s" % (op["method"], target, status, kind, rel), dict(sigbase), flagged)
                else:
                    self.add("C13.read-outside-root", "%s %s -> %s: %s of <arena>%s" % (op["method"], target, status, kind, rel), dict(sigbase), flagged)
        left = sorted(p for p in tmp_named if os.path.lexists(p))
        if left:
            self.add("C13.user-data-in-temp-dir", "%s %s -> %s: %s is still in the temp dir after the request" % (op["method"], target, status, [os.path.basename(p) for p in left[:3]]), dict(sigbase, zone="tmp", how="left"), flagged)
        if r is not None and r.body and MARK.encode() in r.body:
            self.add("C13.outside-data-served", "%s %s -> %s: the response contains decoy data" % (op["method"], target, status), sigbase, flagged)
        d = self.outside_digest()
        if d != self.base_digest:
            self.add("C13.outside-snapshot-changed", "%s %s -> %s: directories next to the root changed" % (op["method"], target, status), sigbase, flagged)
            self.base_digest = d
        if len(self.samples) < 2 and not op.get("benign"):
            self.samples.append({"frontend": self.cfg["frontend"], "prefix": self.cfg["prefix"], "request": "%s %s" % (op["method"], target), "status": status, "fs_events": len(evs)})

    def add(self, oracle, detail, sig, flagged):
        if oracle in flagged:
            return
        flagged.add(oracle)
        s = dict(sig)
        s["oracle"] = oracle
        self.violations.append({"prop": "C13", "oracle": oracle, "sig": s, "step": len(self.ops) - 1, "detail": detail[:600]})
