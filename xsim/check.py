"""Check orchestration: seeded batches, known findings, minimisation,
replay files, evidence (DESIGN.md 2.7-2.9)."""

import hashlib
import json
import os
import sys
import time

from . import rng
from .runner import Farm, cleanup_base

VERIF = os.path.dirname(os.path.dirname(os.path.abspath(__file__)))
EVIDENCE_DIR = os.path.join(VERIF, "evidence")
REPLAY_DIR = os.path.join(VERIF, "replays")
KNOWN = os.path.join(VERIF, "known_findings.json")

COMPONENTS = {
    "real": [
        "xandikos (webdav, caldav, carddav, sync, web, store/*, icalendar, vcard, wsgi, wsgi_helpers) from the working tree",
        "dulwich, icalendar, vobject, defusedxml, multidict, jinja2 as installed",
        "aiohttp web.Application/router/AppRunner/RequestHandler and HTTP parser (aiohttp front end)",
        "xandikos.web.main() start-up coroutine / xandikos/wsgi.py module body",
        "kernel file system (tmpfs arena) behind the SimFS interposition layer",
    ],
    "stub_or_adapter": [
        "SimEventLoop (virtual time, inline executor) instead of the selector loop and thread pool",
        "in-process byte transport instead of TCP; TCPSite.start() is a no-op",
        "WSGI gateway stub written from PEP 3333",
        "SimClock (time.time, datetime.now in xandikos.caldav), seeded uuid4 and tempfile names",
        "compat adapter: dulwich Repo.do_commit -> WorkTree.commit (API removed in dulwich 1.x)",
        "compat adapter: icalendar component_factory -> ComponentFactory() (API changed in icalendar 7)",
    ],
}


def load_known():
    try:
        with open(KNOWN) as f:
            return json.load(f).get("findings", [])
    except FileNotFoundError:
        return []


def match_known(v, known):
    for k in known:
        if k.get("status") != "open" or k.get("property") != v.get("prop"):
            continue
        sig = v.get("sig", {})
        if all(sig.get(a) == b for a, b in k.get("signature", {}).items()):
            return k
    return None


def sig_key(v):
    return json.dumps(v.get("sig", {}), sort_keys=True)


class Spec:
    """What the orchestrator needs to know about one property's check."""

    engine = "hist"
    level = "exploration"
    rule = ""
    quick_budget = 45
    thorough_budget = 480
    run_timeout = 180
    assumptions = ()

    def run(self, prop, seed, tier, tag):
        raise NotImplementedError

    def replay(self, doc, tag):
        raise NotImplementedError

    def minimise(self, prop, result, farm):
        return None

    def nontrivial(self, result):
        return False

    def essential(self, agg):
        """Return a reason string if the batch was vacuous."""
        return None

    def sample(self, result):
        return None

    def extra_coverage(self, agg):
        return {}


class Agg:
    def __init__(self):
        self.runs = 0
        self.seeds = []
        self.stats = {}
        self.nontrivial = set()
        self.states = 0
        self.transitions = 0
        self.virtual_s = 0.0
        self.nreq = 0
        self.violations = []
        self.harness_errors = []
        self.samples = []
        self.bypass = 0
        self.digests = set()
        self.results_kept = []
        self.extra = {}
        self.child_wall = 0.0

    def add_stats(self, st):
        for k, v in (st or {}).items():
            if isinstance(v, (int, float)):
                self.stats[k] = self.stats.get(k, 0) + v


def run_check(prop, tier, spec, budget=None, max_runs=None, verif_seed=None, quiet=False):
    t0 = time.monotonic()
    if verif_seed is None:
        verif_seed = int(os.environ.get("VERIF_SEED", "0") or 0)
    if budget is None:
        b = os.environ.get("VERIF_BUDGET_S")
        budget = float(b) if b else (spec.quick_budget if tier == "quick" else spec.thorough_budget)
    if max_runs is None:
        max_runs = int(os.environ.get("XSIM_MAX_RUNS", "0")) or (100000 if tier == "thorough" else 5000)
    farm = Farm(timeout=spec.run_timeout)
    agg = Agg()
    known = load_known()
    deadline = t0 + budget
    new_viol = []

    def on_result(idx, args, out):
        agg.runs += 1
        agg.child_wall += out.get("wall", 0)
        seed = args[1]
        if len(agg.seeds) < 2000:
            agg.seeds.append(seed)
        if not out.get("ok"):
            agg.harness_errors.append({"seed": seed, "error": out.get("error", "")[-1500:]})
            return
        res = out["result"]
        agg.add_stats(res.get("stats"))
        agg.states += res.get("states", 0)
        agg.transitions += res.get("transitions", 0)
        w = res.get("world") or {}
        agg.virtual_s += w.get("virtual_s", 0.0)
        agg.nreq += w.get("nreq", 0)
        agg.bypass += (res.get("fs") or {}).get("bypass", 0)
        if (res.get("fs") or {}).get("bypass"):
            agg.harness_errors.append({"seed": seed, "error": "seam bypass: %s" % res["fs"].get("bypass_sample")})
        d = res.get("digest")
        if d:
            agg.digests.add(d)
        for k in spec.nontrivial_keys(res):
            agg.nontrivial.add(k)
        if len(agg.samples) < 3:
            s = spec.sample(res)
            if s is not None:
                agg.samples.append(s)
        spec.collect(agg, res)
        for v in res.get("violations", []):
            v = dict(v)
            v["seed"] = seed
            agg.violations.append(v)
            if match_known(v, known) is None:
                new_viol.append((v, res))

    def stop():
        return len(new_viol) >= 3 or len(agg.harness_errors) >= 5

    arglist = [(prop, rng.run_seed(verif_seed, prop, tier, i), tier, "%s-%s-%d" % (prop, tier, i)) for i in range(max_runs)]
    farm.map(spec.run, arglist, deadline=deadline, on_result=on_result, stop=stop)

    exit_code = 0
    lines = []
    # known findings
    reported = set()
    for v in agg.violations:
        k = match_known(v, known)
        if k is not None and k["what"] not in reported:
            reported.add(k["what"])
            lines.append("KNOWN-FINDING: property=%s %s" % (prop, k["what"]))
    # every listed open finding of this property is named, also when this run did not meet it again
    for k in known:
        if k.get("status") == "open" and k.get("property") == prop and k["what"] not in reported:
            reported.add(k["what"])
            lines.append("KNOWN-FINDING: property=%s %s [listed; not met again in this run]" % (prop, k["what"]))
    # new violations: minimise the first of each signature (at most 2)
    done = set()
    for v, res in new_viol:
        sk = sig_key(v)
        if sk in done:
            continue
        done.add(sk)
        if len(done) > 2:
            break
        path = write_replay(prop, spec, v, res, farm)
        lines.append("VIOLATION property=%s replay=%s" % (prop, path))
        lines.append("  oracle=%s seed=%s detail=%s" % (v.get("oracle"), v.get("seed"), v.get("detail", "")[:500]))
        exit_code = 1
    if agg.harness_errors and exit_code == 0:
        exit_code = 2
        for he in agg.harness_errors[:3]:
            lines.append("HARNESS-ERROR seed=%s %s" % (he["seed"], he["error"][-1200:]))
    vac = spec.essential(agg) if exit_code == 0 else None
    if vac and agg.runs >= 5:
        exit_code = 2
        lines.append("HARNESS-ERROR vacuous batch: %s" % vac)
    wall = time.monotonic() - t0
    write_evidence(prop, tier, verif_seed, spec, agg, wall, exit_code, known)
    if not quiet:
        for l in lines:
            print(l)
        print("%s %s: runs=%d nontrivial=%d violations=%d (new %d) harness_errors=%d wall=%.1fs exit=%d" % (
            prop, tier, agg.runs, len(agg.nontrivial), len(agg.violations), len(new_viol), len(agg.harness_errors), wall, exit_code))
    cleanup_base()
    return exit_code


def write_replay(prop, spec, v, res, farm):
    os.makedirs(REPLAY_DIR, exist_ok=True)
    doc = None
    try:
        doc = spec.minimise(prop, v, res, farm)
    except Exception as e:  # noqa: BLE001 - fall back to the unminimised history
        doc = None
        sys.stderr.write("minimiser failed: %r\n" % (e,))
    if doc is None:
        doc = spec.replay_doc(prop, v, res)
        doc["minimised"] = False
    path = os.path.join(REPLAY_DIR, "%s-%s.json" % (prop, v.get("seed")))
    with open(path, "w") as f:
        json.dump(doc, f, indent=1, sort_keys=True)
    return path


def write_evidence(prop, tier, seed, spec, agg, wall, exit_code, known):
    from .env import repo_path

    if repo_path() != "/repo":
        # a run against a scratch copy (seeded change) says nothing about /repo
        return
    os.makedirs(EVIDENCE_DIR, exist_ok=True)
    faults = {k[len("fault."):]: v for k, v in agg.stats.items() if k.startswith("fault.")}
    probes = {k: v for k, v in agg.stats.items() if not k.startswith(("fault.", "op."))}
    ops = {k[len("op."):]: v for k, v in agg.stats.items() if k.startswith("op.")}
    cov = {
        "evaluations": agg.runs,
        "distinct_nontrivial": len(agg.nontrivial),
        "rule": spec.rule,
        "samples": agg.samples or [{"note": "no sample captured"}],
        "states": agg.states,
        "transitions": agg.transitions,
        "distinct_run_digests": len(agg.digests),
        "runs_per_hour": round(agg.runs / wall * 3600) if wall > 0 else 0,
        "simulated_seconds": round(agg.virtual_s, 1),
        "requests": agg.nreq,
        "faults_fired": faults,
        "operations": ops,
        "reach_probes": probes,
        "seam_bypass": agg.bypass,
        "seeds": {"verif_seed": seed, "first_run_seeds": agg.seeds[:8], "count": agg.runs},
        "components": COMPONENTS,
        "engine": spec.engine,
        "harness_errors": len(agg.harness_errors),
        "known_findings_hit": sorted({k["what"] for v in agg.violations for k in [match_known(v, known)] if k}),
        "exit_code": exit_code,
        "exhaustive": False,
    }
    cov.update(spec.extra_coverage(agg))
    doc = {
        "property_id": prop,
        "tier": tier,
        "seed": seed,
        "level": spec.level,
        "coverage": cov,
        "assumptions": list(spec.assumptions),
        "wall_s": round(wall, 2),
        "violations": len([v for v in agg.violations if match_known(v, known) is None]),
    }
    with open(os.path.join(EVIDENCE_DIR, "%s.json" % prop), "w") as f:
        json.dump(doc, f, indent=1, sort_keys=True, default=str)


def do_replay(path, spec_for):
    with open(path) as f:
        doc = json.load(f)
    prop = doc["prop"]
    spec = spec_for(prop)
    farm = Farm(timeout=spec.run_timeout)
    outs = []
    farm.map(spec.replay, [(doc, "replay-%s" % prop)], on_result=lambda i, a, o: outs.append(o))
    cleanup_base()
    out = outs[0]
    if not out.get("ok"):
        print("HARNESS-ERROR during replay: %s" % out.get("error"))
        return 2
    res = out["result"]
    want = doc.get("expect", {})
    hit = [v for v in res.get("violations", []) if v.get("oracle") == want.get("oracle")]
    print("replay digest=%s" % res.get("digest"))
    if hit:
        v = hit[0]
        print("VIOLATION property=%s replay=%s" % (prop, path))
        print("  oracle=%s detail=%s" % (v.get("oracle"), v.get("detail")))
        if doc.get("digest") and res.get("digest") != doc.get("digest"):
            print("  note: event digest differs from the recorded one (%s)" % doc.get("digest"))
        return 1
    print("not reproduced: %s" % [v.get("oracle") for v in res.get("violations", [])])
    return 0
